(** C27 — Stack and PriorityQueue follow their reference models.
    Model: ModelHeap.v (statement-by-statement mirror of stack.py / priority_queue.py, tied to the
    sources by the differential harness props/C27).  Reference models: Spec.v.
    All statements are for every element type T, every capacity max_size >= 0 and every
    operation script (no bound on length); `Fuel` (loop fuel exhausted) and the Option/array
    panics are excluded as observations by the specifications. *)
From Coq Require Import ZArith List String Bool Permutation.
From V.C27 Require Import ModelHeap ModelIter Spec ProofsCells ProofsStack ProofsPQ ProofsIter.
Import ListNotations.
Open Scope Z_scope.

(* Stack = LIFO list: a script run on the buffer implementation from empty_stack() yields exactly
   the observations (results, lengths, the three panics, end of iteration) of the list model *)
Theorem stack_lifo : forall (T : Type) (max_size : Z) (ops : list (@sop T)), 0 <= max_size ->
  fst (stack_run max_size ops (empty_stack max_size)) = fst (spec_stack_run max_size ops []).
Proof. intros T m ops H. exact (proj1 (ProofsStack.run_refines m ops _ _ (empty_rep m H))). Qed.
Print Assumptions stack_lifo.

(* the same from any state representing list l, and the final state again represents the
   final list (so the source's INVARIANT comment is an invariant) *)
Theorem stack_lifo_from : forall (T : Type) max_size ops (s : @stack T) l, stack_rep max_size s l ->
  fst (stack_run max_size ops s) = fst (spec_stack_run max_size ops l) /\
  match snd (stack_run max_size ops s), snd (spec_stack_run max_size ops l) with
  | Some s', Some l' => stack_rep max_size s' l'
  | None, None => True
  | _, _ => False
  end.
Proof. intros T m ops s l R. exact (ProofsStack.run_refines m ops s l R). Qed.
Print Assumptions stack_lifo_from.

(* PriorityQueue: every script from empty_priority_queue() only shows observations the multiset
   specification allows: pop/peek/next give an entry of minimal priority that is in the multiset,
   the multiset changes exactly by the pushed/popped entry, len is its size, push panics exactly
   when full, pop/peek exactly when empty *)
Theorem pq_follows_multiset_spec : forall (T : Type) (max_size : Z) (ops : list (@qop T)), 0 <= max_size ->
  pq_spec_run max_size [] ops (fst (pq_run max_size ops (empty_pq max_size))).
Proof.
  intros T m ops H. destruct (@empty_inv T m H) as [Inv E].
  pose proof (proj1 (ProofsPQ.run_refines m ops _ Inv)) as R. rewrite E in R. exact R.
Qed.
Print Assumptions pq_follows_multiset_spec.

(* heap invariant (prefix of `some` + parent <= child) holds in every reachable state *)
Theorem heap_inv : forall (T : Type) (max_size : Z) (ops : list (@qop T)) s, 0 <= max_size ->
  snd (pq_run max_size ops (empty_pq max_size)) = Some s -> pq_inv max_size s.
Proof.
  intros T m ops s H R. destruct (@empty_inv T m H) as [Inv _].
  pose proof (proj2 (ProofsPQ.run_refines m ops _ Inv)) as P. rewrite R in P. exact P.
Qed.
Print Assumptions heap_inv.

(* ... and is preserved by push (sift-up) and pop (sift-down), which succeed within capacity *)
Theorem heap_inv_push : forall (T : Type) max_size (s : @pq T) v p, pq_inv max_size s -> snd s < max_size ->
  exists s', pq_push max_size s v p = Ok s' /\ pq_inv max_size s' /\ snd s' = snd s + 1.
Proof. intros T m s v p I H. destruct (push_spec m s v p I H) as (s' & A & B & C & _). eauto. Qed.
Print Assumptions heap_inv_push.

Theorem heap_inv_pop : forall (T : Type) max_size (s : @pq T), pq_inv max_size s -> 0 < snd s ->
  exists p v s', pq_pop s = Ok (p, v, s') /\ pq_inv max_size s' /\ snd s' = snd s - 1.
Proof. intros T m s I H. destruct (pop_spec m s I H) as (p & v & s' & A & B & C & _). eauto 6. Qed.
Print Assumptions heap_inv_pop.

(* pop and peek return an entry of the queue whose priority is minimal *)
Theorem pq_min : forall (T : Type) max_size (s : @pq T), pq_inv max_size s -> 0 < snd s ->
  (exists p v s', pq_pop s = Ok (p, v, s') /\ is_min (p, v) (contents s)) /\
  (exists p v, pq_peek s = Ok (p, v, s) /\ is_min (p, v) (contents s)).
Proof.
  intros T m s I H. split.
  - destruct (pop_spec m s I H) as (p & v & s' & A & _ & _ & B & _). eauto 6.
  - exact (peek_spec m s I H).
Qed.
Print Assumptions pq_min.

(* the multiset of entries: push adds exactly the pushed entry, pop removes exactly the returned one *)
Theorem pq_multiset : forall (T : Type) max_size (s : @pq T), pq_inv max_size s ->
  (forall v p, snd s < max_size -> exists s', pq_push max_size s v p = Ok s' /\
                Permutation (contents s') ((p, v) :: contents s)) /\
  (0 < snd s -> exists p v s', pq_pop s = Ok (p, v, s') /\ Permutation (contents s) ((p, v) :: contents s')).
Proof.
  intros T m s I. split.
  - intros v p H. destruct (push_spec m s v p I H) as (s' & A & _ & _ & B). eauto.
  - intros H. destruct (pop_spec m s I H) as (p & v & s' & A & _ & _ & _ & B). eauto 6.
Qed.
Print Assumptions pq_multiset.

(* the panics of the docstrings: push at capacity; pop / peek on an empty collection *)
Theorem capacity_panics : forall (T : Type) max_size,
  (forall (s : @stack T) l v, stack_rep max_size s l -> Z.of_nat (List.length l) >= max_size ->
      stack_push max_size s v = Panic msg_stack_push) /\
  (forall (s : @stack T), stack_rep max_size s [] ->
      stack_pop s = Panic msg_stack_pop /\ stack_peek s = Panic msg_stack_peek) /\
  (forall (s : @pq T) v p, pq_inv max_size s -> Z.of_nat (List.length (contents s)) >= max_size ->
      pq_push max_size s v p = Panic msg_pq_push) /\
  (forall (s : @pq T), pq_inv max_size s -> contents s = [] ->
      pq_pop s = Panic msg_pq_pop /\ pq_peek s = Panic msg_pq_peek).
Proof.
  intros T m. repeat split.
  - intros s l v R H. exact (ProofsStack.push_full m s l v R H).
  - exact (ProofsStack.pop_empty m s H).
  - exact (ProofsStack.peek_empty m s H).
  - intros s v p I H. rewrite (size_is_length m s I) in H. exact (ProofsPQ.push_full m s v p H).
  - pose proof (size_is_length m s H) as L. rewrite H0 in L. apply ProofsPQ.pop_empty. simpl in L. rewrite <- L. apply Z.le_refl.
  - pose proof (size_is_length m s H) as L. rewrite H0 in L. apply ProofsPQ.peek_empty. simpl in L. rewrite <- L. apply Z.le_refl.
Qed.
Print Assumptions capacity_panics.

(* iteration (`for x in s`): a Stack yields its elements top first; a PriorityQueue yields all its
   entries, each exactly once, in non-decreasing priority order; the loop ends (no Fuel), and the
   final discard_empty does not panic *)
Theorem iteration_order : forall (T : Type) max_size,
  (forall (s : @stack T) l, stack_rep max_size s l ->
      stack_iter (S (List.length l)) (stack_iter_self s) = Ok l) /\
  (forall (s : @pq T), pq_inv max_size s ->
      exists l, pq_iter (S (Z.to_nat (snd s))) (pq_iter_self s) = Ok l /\ sorted_prio l /\
                Permutation l (contents s)).
Proof.
  intros T m. split.
  - intros s l R. apply (stack_iter_spec _ m s l R). apply Nat.lt_succ_diag_r.
  - intros s I. apply (pq_iter_spec _ m s I). apply Nat.lt_succ_diag_r.
Qed.
Print Assumptions iteration_order.

(** The hypotheses are satisfiable on non-trivial instances, and the model computes: *)
Example ex_stack :
  fst (stack_run 2 [SPush 5; SPush 6; SPeek; SLen; SPush 7] (empty_stack 2))
  = [SUnit; SUnit; SVal 6; SLenIs 2; SPanic msg_stack_push].
Proof. vm_compute. reflexivity. Qed.

(* ties (priority 1 twice), a sift-up over two levels and a sift-down taking the right child *)
Example ex_pq :
  fst (pq_run 5 [QPush 10 3; QPush 11 1; QPush 12 2; QPush 13 1; QPush 14 0; QPop; QPop; QPop; QLen; QPeek]
         (empty_pq 5))
  = [QUnit; QUnit; QUnit; QUnit; QUnit; QEntry 0 14; QEntry 1 13; QEntry 1 11; QLenIs 2; QEntry 2 12].
Proof. vm_compute. reflexivity. Qed.

Example ex_pq_inv_nontrivial : exists s : @pq Z, pq_inv 5 s /\ snd s = 4 /\ 0 < snd s < 5.
Proof.
  destruct (snd (pq_run 5 [QPush 10 3; QPush 11 1; QPush 12 2; QPush 13 1] (empty_pq 5))) as [s|] eqn:E;
    [|vm_compute in E; discriminate].
  exists s. split; [eapply (heap_inv Z 5); [vm_compute; discriminate|exact E]|].
  vm_compute in E. inversion E. subst. vm_compute. split; [reflexivity|split; reflexivity].
Qed.

Example ex_pq_iter :
  match snd (pq_run 5 [QPush 10 3; QPush 11 1; QPush 12 2; QPush 13 1; QPush 14 0] (empty_pq 5)) with
  | Some s => pq_iter 6 s = Ok [(0, 14); (1, 13); (1, 11); (2, 12); (3, 10)]
  | None => False
  end.
Proof. vm_compute. reflexivity. Qed.
