(** C27 — encoding of model runs as nested lists of Z for the differential harness
    (props/C27/check.py decodes them).  Definitions only. *)
From Coq Require Import ZArith List String Bool.
From V.C27 Require Import ModelHeap.
Import ListNotations.
Open Scope Z_scope.

Definition msg_table : list string :=
  [msg_oob; msg_unwrap; msg_unwrap_nothing; msg_stack_push; msg_stack_pop; msg_stack_peek;
   msg_stack_discard; msg_pq_push; msg_pq_pop; msg_pq_peek; msg_pq_discard].

Fixpoint msg_index (m : string) (t : list string) (k : Z) : Z :=
  match t with
  | [] => -1
  | h :: t' => if String.eqb m h then k else msg_index m t' (k + 1)
  end.
Definition msg_code (m : string) : Z := msg_index m msg_table 0.

Definition enc_sobs (o : @sobs Z) : list Z :=
  match o with
  | SUnit => [0] | SVal v => [1; v] | SLenIs n => [2; n] | SNothing => [3]
  | SPanic m => [4; msg_code m] | SFuel => [5]
  end.
Definition enc_qobs (o : @qobs Z) : list Z :=
  match o with
  | QUnit => [0] | QEntry p v => [1; p; v] | QLenIs n => [2; n] | QNothing => [3]
  | QPanic m => [4; msg_code m] | QFuel => [5]
  end.
Definition enc_scell (c : option Z) : list Z := match c with None => [] | Some v => [v] end.
Definition enc_qcell (c : option (Z * Z)) : list Z := match c with None => [] | Some (p, v) => [p; v] end.

(* observations, then a separator [-1] followed by [size] and the cells, or [-2] if stopped *)
Definition enc_srun (r : list (@sobs Z) * option (@stack Z)) : list (list Z) :=
  map enc_sobs (fst r) ++
  match snd r with None => [[-2]] | Some (b, e) => [-1] :: [e] :: map enc_scell b end.
Definition enc_qrun (r : list (@qobs Z) * option (@pq Z)) : list (list Z) :=
  map enc_qobs (fst r) ++
  match snd r with None => [[-2]] | Some (b, n) => [-1] :: [n] :: map enc_qcell b end.
