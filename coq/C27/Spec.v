(** C27 — the reference models (specification side).  Written without looking at the buffers:
    a Stack is a Python list used LIFO; a PriorityQueue is a multiset of (priority, value)
    entries (a list up to permutation) from which pop/peek may return ANY entry of minimal priority. *)
From Coq Require Import ZArith List String Bool Permutation.
From V.C27 Require Import ModelHeap.
Import ListNotations.
Open Scope Z_scope.

Section StackSpec.
  Context {T : Type}.
  (* abstract state: the list of elements, top first *)
  Definition spec_stack_step (max_size : Z) (l : list T) (o : @sop T) : @sobs T * option (list T) :=
    match o with
    | SPush v => if Z.of_nat (List.length l) >=? max_size then (SPanic msg_stack_push, None)
                 else (SUnit, Some (v :: l))
    | SPop => match l with [] => (SPanic msg_stack_pop, None) | v :: l' => (SVal v, Some l') end
    | SPeek => match l with [] => (SPanic msg_stack_peek, None) | v :: _ => (SVal v, Some l) end
    | SLen => (SLenIs (Z.of_nat (List.length l)), Some l)
    | SNext => match l with [] => (SNothing, None) | v :: l' => (SVal v, Some l') end
    end.

  Fixpoint spec_stack_run (max_size : Z) (ops : list (@sop T)) (l : list T) : list (@sobs T) * option (list T) :=
    match ops with
    | [] => ([], Some l)
    | o :: rest =>
        match spec_stack_step max_size l o with
        | (ob, Some l') => let '(obs, fin) := spec_stack_run max_size rest l' in (ob :: obs, fin)
        | (ob, None) => ([ob], None)
        end
    end.
End StackSpec.

Section PQSpec.
  Context {T : Type}.
  Notation entry := (Z * T)%type.

  (* e is an entry of m whose priority is minimal in m *)
  Definition is_min (e : entry) (m : list entry) : Prop :=
    In e m /\ forall e', In e' m -> fst e <= fst e'.

  (* one operation on the multiset m: allowed observation, and the multiset afterwards
     (None: the program has panicked / the iterator has finished) *)
  Inductive pq_spec_step (max_size : Z) (m : list entry) : @qop T -> @qobs T -> option (list entry) -> Prop :=
  | sp_push : forall v p m', Z.of_nat (List.length m) < max_size -> Permutation m' ((p, v) :: m) ->
      pq_spec_step max_size m (QPush v p) QUnit (Some m')
  | sp_push_full : forall v p, Z.of_nat (List.length m) >= max_size ->
      pq_spec_step max_size m (QPush v p) (QPanic msg_pq_push) None
  | sp_pop : forall p v m', is_min (p, v) m -> Permutation m ((p, v) :: m') ->
      pq_spec_step max_size m QPop (QEntry p v) (Some m')
  | sp_pop_empty : m = [] -> pq_spec_step max_size m QPop (QPanic msg_pq_pop) None
  | sp_peek : forall p v m', is_min (p, v) m -> Permutation m m' ->
      pq_spec_step max_size m QPeek (QEntry p v) (Some m')
  | sp_peek_empty : m = [] -> pq_spec_step max_size m QPeek (QPanic msg_pq_peek) None
  | sp_len : forall m', Permutation m m' ->
      pq_spec_step max_size m QLen (QLenIs (Z.of_nat (List.length m))) (Some m')
  | sp_next : forall p v m', is_min (p, v) m -> Permutation m ((p, v) :: m') ->
      pq_spec_step max_size m QNext (QEntry p v) (Some m')
  | sp_next_done : m = [] -> pq_spec_step max_size m QNext QNothing None.

  (* an observation list is allowed for a script started on multiset m *)
  Inductive pq_spec_run (max_size : Z) : list entry -> list (@qop T) -> list (@qobs T) -> Prop :=
  | sr_nil : forall m, pq_spec_run max_size m [] []
  | sr_stop : forall m o ob rest, pq_spec_step max_size m o ob None -> pq_spec_run max_size m (o :: rest) [ob]
  | sr_cons : forall m o ob m' rest obs, pq_spec_step max_size m o ob (Some m') ->
      pq_spec_run max_size m' rest obs -> pq_spec_run max_size m (o :: rest) (ob :: obs).

  (* priorities of a list of entries in non-decreasing order *)
  Inductive sorted_prio : list entry -> Prop :=
  | so_nil : sorted_prio []
  | so_cons : forall e l, (forall e', In e' l -> fst e <= fst e') -> sorted_prio l -> sorted_prio (e :: l).
End PQSpec.
