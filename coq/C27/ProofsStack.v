(** C27 — Stack refines the LIFO list. *)
From Coq Require Import ZArith List String Bool Lia Permutation.
From V.C27 Require Import ModelHeap Spec ProofsCells.
Import ListNotations.
Open Scope Z_scope.

Section StackProofs.
  Context {T : Type}.
  Notation stack := (@stack T).

  (** representation invariant + abstraction: cell j holds the j-th element from the bottom,
      every other cell is `nothing`; [l] is the abstract stack, top first *)
  Definition stack_rep (max_size : Z) (s : stack) (l : list T) : Prop :=
    let '(b, e) := s in
    len b = max_size /\ e = Z.of_nat (List.length l) /\ e <= max_size /\
    forall j, 0 <= j -> bget b j = nth_error (rev l) (Z.to_nat j).

  Lemma empty_rep : forall max_size, 0 <= max_size -> stack_rep max_size (empty_stack max_size) [].
  Proof.
    intros m H. unfold stack_rep, empty_stack, len. rewrite repeat_length. repeat split; try (simpl; lia).
    intros j Hj. rewrite bget_repeat_none. simpl. now destruct (Z.to_nat j).
  Qed.

  Lemma nth_error_snoc : forall (l : list T) v k,
    nth_error (l ++ [v]) k = if (k =? List.length l)%nat then Some v else nth_error l k.
  Proof.
    intros l v k. destruct (Nat.eqb_spec k (List.length l)) as [->|N].
    - rewrite nth_error_app2 by lia. now rewrite Nat.sub_diag.
    - destruct (Nat.lt_ge_cases k (List.length l)).
      + now rewrite nth_error_app1.
      + rewrite (proj2 (nth_error_None l k)) by lia. apply nth_error_None. rewrite app_length. simpl. lia.
  Qed.

  Lemma push_rep : forall m s l v, stack_rep m s l -> Z.of_nat (List.length l) < m ->
    exists s', stack_push m s v = Ok s' /\ stack_rep m s' (v :: l).
  Proof.
    intros m [b e] l v (Hl & He & Hle & Hb) Hlt. unfold stack_push.
    destruct (Z.geb_spec e m); try lia.
    rewrite put_ok.
    - eexists; split; [reflexivity|]. unfold stack_rep. rewrite len_upd. repeat split; auto.
      + simpl List.length. lia.
      + lia.
      + intros j Hj. rewrite bget_upd by lia. simpl rev. rewrite nth_error_snoc, rev_length.
        destruct (Z.eqb_spec j e), (Nat.eqb_spec (Z.to_nat j) (List.length l)); try lia; auto.
    - lia.
    - rewrite Hb by lia. apply nth_error_None. rewrite rev_length. lia.
  Qed.

  Lemma push_full : forall m s l v, stack_rep m s l -> Z.of_nat (List.length l) >= m ->
    stack_push m s v = Panic msg_stack_push.
  Proof.
    intros m [b e] l v (Hl & He & Hle & Hb) Hge. unfold stack_push.
    destruct (Z.geb_spec e m); auto; lia.
  Qed.

  Lemma top_cell : forall m b e l v, stack_rep m (b, e) (v :: l) ->
    0 <= e - 1 < len b /\ bget b (e - 1) = Some v.
  Proof.
    intros m b e l v (Hl & He & Hle & Hb). simpl List.length in He. split; [lia|].
    rewrite Hb by lia. simpl rev. rewrite nth_error_snoc, rev_length.
    destruct (Nat.eqb_spec (Z.to_nat (e - 1)) (List.length l)); auto; lia.
  Qed.

  Lemma pop_rep : forall m s l v, stack_rep m s (v :: l) ->
    exists s', stack_pop s = Ok (v, s') /\ stack_rep m s' l.
  Proof.
    intros m [b e] l v R. pose proof (top_cell _ _ _ _ _ R) as (Hi & Hg).
    destruct R as (Hl & He & Hle & Hb). simpl List.length in He. unfold stack_pop.
    destruct (Z.leb_spec e 0); try lia.
    rewrite (take_some_ok b (e - 1) v Hi Hg). simpl.
    eexists; split; [reflexivity|]. unfold stack_rep. rewrite len_upd. repeat split; auto; try lia.
    intros j Hj. rewrite bget_upd by lia. rewrite Hb by lia. simpl rev. rewrite nth_error_snoc, rev_length.
    destruct (Z.eqb_spec j (e - 1)), (Nat.eqb_spec (Z.to_nat j) (List.length l)); try lia; auto.
    symmetry. apply nth_error_None. rewrite rev_length. lia.
  Qed.

  Lemma peek_rep : forall m s l v, stack_rep m s (v :: l) -> stack_peek s = Ok (v, s).
  Proof.
    intros m [b e] l v R. pose proof (top_cell _ _ _ _ _ R) as (Hi & Hg).
    destruct R as (Hl & He & Hle & Hb). simpl List.length in He. unfold stack_peek.
    destruct (Z.leb_spec e 0); try lia.
    rewrite a_get_ok by lia. simpl. rewrite Hg. reflexivity.
  Qed.

  Lemma pop_empty : forall m s, stack_rep m s [] -> stack_pop s = Panic msg_stack_pop.
  Proof. intros m [b e] (Hl & He & _). simpl in He. subst e. reflexivity. Qed.

  Lemma peek_empty : forall m s, stack_rep m s [] -> stack_peek s = Panic msg_stack_peek.
  Proof. intros m [b e] (Hl & He & _). simpl in He. subst e. reflexivity. Qed.

  Lemma len_rep : forall m s l, stack_rep m s l -> stack_len s = Z.of_nat (List.length l).
  Proof. intros m [b e] l (Hl & He & _). exact He. Qed.

  Lemma next_empty : forall m s, stack_rep m s [] -> stack_next s = Ok None.
  Proof.
    intros m [b e] (Hl & He & Hle & Hb). simpl in He. subst e. unfold stack_next. simpl.
    rewrite all_nothing_ok; auto. intros j Hj. rewrite Hb by lia. simpl. now destruct (Z.to_nat j).
  Qed.

  Lemma next_rep : forall m s l v, stack_rep m s (v :: l) ->
    exists s', stack_next s = Ok (Some (v, s')) /\ stack_rep m s' l.
  Proof.
    intros m s l v R. destruct (pop_rep _ _ _ _ R) as (s' & Hp & R').
    exists s'. split; auto. unfold stack_next. rewrite (len_rep _ _ _ R). simpl List.length.
    destruct (Z.eqb_spec (Z.of_nat (S (List.length l))) 0); try lia. rewrite Hp. reflexivity.
  Qed.

  (** one step: same observation, and the representation is kept *)
  Lemma step_refines : forall m s l o, stack_rep m s l ->
    match stack_step m s o, spec_stack_step m l o with
    | (ob, Some s'), (ob', Some l') => ob = ob' /\ stack_rep m s' l'
    | (ob, None), (ob', None) => ob = ob'
    | _, _ => False
    end.
  Proof.
    intros m s l o R. destruct o; simpl.
    - destruct (Z.geb_spec (Z.of_nat (List.length l)) m).
      + rewrite (push_full _ _ _ v R) by lia. simpl. auto.
      + destruct (push_rep _ _ _ v R ltac:(lia)) as (s' & -> & R'). simpl. auto.
    - destruct l as [|v l].
      + rewrite (pop_empty _ _ R). simpl. auto.
      + destruct (pop_rep _ _ _ _ R) as (s' & -> & R'). simpl. auto.
    - destruct l as [|v l].
      + rewrite (peek_empty _ _ R). simpl. auto.
      + rewrite (peek_rep _ _ _ _ R). simpl. auto.
    - rewrite (len_rep _ _ _ R). auto.
    - destruct l as [|v l].
      + rewrite (next_empty _ _ R). simpl. auto.
      + destruct (next_rep _ _ _ _ R) as (s' & -> & R'). simpl. auto.
  Qed.

  Lemma run_refines : forall m ops s l, stack_rep m s l ->
    fst (stack_run m ops s) = fst (spec_stack_run m ops l) /\
    match snd (stack_run m ops s), snd (spec_stack_run m ops l) with
    | Some s', Some l' => stack_rep m s' l'
    | None, None => True
    | _, _ => False
    end.
  Proof.
    induction ops as [|o ops IH]; intros s l R; simpl; auto.
    pose proof (step_refines m s l o R) as H.
    destruct (stack_step m s o) as [ob [s'|]], (spec_stack_step m l o) as [ob' [l'|]]; try contradiction.
    - destruct H as [-> R']. specialize (IH s' l' R').
      destruct (stack_run m ops s') as [obs fin], (spec_stack_run m ops l') as [obs' fin']. simpl in *.
      destruct IH as [-> IH]. auto.
    - subst. simpl. auto.
  Qed.
End StackProofs.
