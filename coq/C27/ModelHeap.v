(** C27 — executable model of guppylang/std/collections/{stack,priority_queue}.py.

    The Guppy sources are mirrored statement by statement.  Reading used:
      array[Option[X], MAX_SIZE]     list (option X) (length = MAX_SIZE is part of the invariant)
      Guppy int                      Z   (no wrap-around: sizes stay within [0, MAX_SIZE])
      self.buf[i]                    bounds-checked access, out of range -> panic "Array index out of bounds"
      o.swap(x)                      store x in the cell, return the old content
      o.take()                       o.swap(nothing())
      o.unwrap() / o.unwrap_nothing()  panic on the wrong variant
      panic(msg)                     aborts: [Panic msg]
      while loops                    Fixpoints on explicit fuel; running out of fuel is the distinguished
                                     outcome [Fuel], proved unreachable in ProofsPQ.v
    No proofs in this file. *)
From Coq Require Import ZArith List String Bool.
Import ListNotations.
Open Scope Z_scope.

Inductive res (A : Type) : Type :=
| Ok (a : A)
| Panic (m : string)
| Fuel.
Arguments Ok {A} a.
Arguments Panic {A} m.
Arguments Fuel {A}.

Definition bind {A B} (r : res A) (f : A -> res B) : res B :=
  match r with Ok a => f a | Panic m => Panic m | Fuel => Fuel end.
Notation "' p <- e ;; k" := (bind e (fun p => k))
  (at level 61, p pattern, e at next level, right associativity).
Notation "x <- e ;; k" := (bind e (fun x => k))
  (at level 61, e at next level, right associativity).

Definition msg_oob : string := "Array index out of bounds".
Definition msg_unwrap : string := "Option.unwrap: value is `Nothing`".
Definition msg_unwrap_nothing : string := "Option.unwrap: value is `Some`".
Definition msg_stack_push : string := "Stack.push: max size reached".
Definition msg_stack_pop : string := "Stack.pop: stack is empty".
Definition msg_stack_peek : string := "Stack.peek: stack is empty".
Definition msg_stack_discard : string := "Stack.discard_empty: stack is not empty".
Definition msg_pq_push : string := "PriorityQueue.push: max size reached".
Definition msg_pq_pop : string := "PriorityQueue.pop: priority queue is empty".
Definition msg_pq_peek : string := "PriorityQueue.peek: priority queue is empty".
Definition msg_pq_discard : string := "PriorityQueue.discard_empty: priority queue is not empty".

(** * Arrays of options *)
Section Cells.
  Context {Y : Type}.
  Definition cells := list (option Y).

  Fixpoint upd_nat (b : cells) (n : nat) (x : option Y) : cells :=
    match b, n with
    | [], _ => []
    | _ :: t, O => x :: t
    | h :: t, S n' => h :: upd_nat t n' x
    end.
  Definition upd (b : cells) (i : Z) (x : option Y) : cells := upd_nat b (Z.to_nat i) x.
  Definition bget (b : cells) (i : Z) : option Y :=
    if 0 <=? i then nth (Z.to_nat i) b None else None.
  Definition idx_ok (b : cells) (i : Z) : bool := (0 <=? i) && (i <? Z.of_nat (List.length b)).

  (* self.buf[i].swap(o)  ->  (old content, new buffer) *)
  Definition a_swap (b : cells) (i : Z) (o : option Y) : res (option Y * cells) :=
    if idx_ok b i then Ok (bget b i, upd b i o) else Panic msg_oob.
  (* self.buf[i].take() *)
  Definition a_take (b : cells) (i : Z) : res (option Y * cells) := a_swap b i None.
  (* self.buf[i]  (copy of the cell, copyable element types only) *)
  Definition a_get (b : cells) (i : Z) : res (option Y) :=
    if idx_ok b i then Ok (bget b i) else Panic msg_oob.
  Definition unwrap (o : option Y) : res Y :=
    match o with Some y => Ok y | None => Panic msg_unwrap end.
  Definition unwrap_nothing (o : option Y) : res unit :=
    match o with None => Ok tt | Some _ => Panic msg_unwrap_nothing end.

  (* self.buf[i].take().unwrap() *)
  Definition take_some (b : cells) (i : Z) : res (Y * cells) :=
    '(o, b) <- a_take b i ;; y <- unwrap o ;; Ok (y, b).
  (* self.buf[i].swap(some(y)).unwrap_nothing() *)
  Definition put (b : cells) (i : Z) (y : Y) : res cells :=
    '(o, b) <- a_swap b i (Some y) ;; _ <- unwrap_nothing o ;; Ok b.
  (* for elem in self.buf: elem.unwrap_nothing() *)
  Fixpoint all_nothing (b : cells) : res unit :=
    match b with
    | [] => Ok tt
    | o :: t => _ <- unwrap_nothing o ;; all_nothing t
    end.
End Cells.

(** * Stack *)
Section Stack.
  Context {T : Type}.
  (* struct Stack: buf, end *)
  Definition stack : Type := (list (option T) * Z)%type.

  (* empty_stack(): array(nothing() for _ in range(MAX_SIZE)), 0 *)
  Definition empty_stack (max_size : Z) : stack := (repeat None (Z.to_nat max_size), 0).

  Definition stack_len (s : stack) : Z := snd s.

  Definition stack_push (max_size : Z) (s : stack) (elem : T) : res stack :=
    let '(buf, end_) := s in
    if end_ >=? max_size then Panic msg_stack_push else
    buf <- put buf end_ elem ;;
    Ok (buf, end_ + 1).

  Definition stack_pop (s : stack) : res (T * stack) :=
    let '(buf, end_) := s in
    if end_ <=? 0 then Panic msg_stack_pop else
    '(elem, buf) <- take_some buf (end_ - 1) ;;
    Ok (elem, (buf, end_ - 1)).

  Definition stack_peek (s : stack) : res (T * stack) :=
    let '(buf, end_) := s in
    if end_ <=? 0 then Panic msg_stack_peek else
    o <- a_get buf (end_ - 1) ;;
    elem <- unwrap o ;;
    Ok (elem, (buf, end_)).

  Definition stack_discard_empty (s : stack) : res unit :=
    let '(buf, end_) := s in
    if end_ >? 0 then Panic msg_stack_discard else
    all_nothing buf.

  (* __next__: None = nothing(), Some = some((val, new_stack)) *)
  Definition stack_next (s : stack) : res (option (T * stack)) :=
    if stack_len s =? 0 then
      _ <- stack_discard_empty s ;; Ok None
    else
      '(val, new_stack) <- stack_pop s ;; Ok (Some (val, new_stack)).

  (** operation scripts *)
  Inductive sop := SPush (v : T) | SPop | SPeek | SLen | SNext.
  Inductive sobs := SUnit | SVal (v : T) | SLenIs (n : Z) | SNothing | SPanic (m : string) | SFuel.

  Definition lift_obs {A} (r : res A) (f : A -> sobs * option stack) : sobs * option stack :=
    match r with Ok a => f a | Panic m => (SPanic m, None) | Fuel => (SFuel, None) end.

  (* one operation: observation and the stack afterwards ([None]: the program has panicked, or
     the iterator has consumed the stack) *)
  Definition stack_step (max_size : Z) (s : stack) (o : sop) : sobs * option stack :=
    match o with
    | SPush v => lift_obs (stack_push max_size s v) (fun s' => (SUnit, Some s'))
    | SPop => lift_obs (stack_pop s) (fun '(v, s') => (SVal v, Some s'))
    | SPeek => lift_obs (stack_peek s) (fun '(v, s') => (SVal v, Some s'))
    | SLen => (SLenIs (stack_len s), Some s)
    | SNext => lift_obs (stack_next s)
                 (fun r => match r with None => (SNothing, None) | Some (v, s') => (SVal v, Some s') end)
    end.

  Fixpoint stack_run (max_size : Z) (ops : list sop) (s : stack) : list sobs * option stack :=
    match ops with
    | [] => ([], Some s)
    | o :: rest =>
        match stack_step max_size s o with
        | (ob, Some s') => let '(obs, fin) := stack_run max_size rest s' in (ob :: obs, fin)
        | (ob, None) => ([ob], None)
        end
    end.
End Stack.

(** * PriorityQueue *)
Section PQ.
  Context {T : Type}.
  Definition entry : Type := (Z * T)%type.          (* (priority, value) *)
  (* struct PriorityQueue: buf, size *)
  Definition pq : Type := (list (option entry) * Z)%type.

  Definition empty_pq (max_size : Z) : pq := (repeat None (Z.to_nat max_size), 0).

  Definition pq_len (s : pq) : Z := snd s.

  (* the `while i > 0` loop of push *)
  Fixpoint sift_up (fuel : nat) (buf : list (option entry)) (i : Z) : res (list (option entry)) :=
    if i >? 0 then
      match fuel with
      | O => Fuel
      | S fuel =>
          let parent_i := (i - 1) / 2 in
          '((prio, val), buf) <- take_some buf i ;;
          '((parent_prio, parent_val), buf) <- take_some buf parent_i ;;
          if prio >=? parent_prio then
            buf <- put buf i (prio, val) ;;
            buf <- put buf parent_i (parent_prio, parent_val) ;;
            Ok buf                                                   (* break *)
          else
            buf <- put buf i (parent_prio, parent_val) ;;
            buf <- put buf parent_i (prio, val) ;;
            sift_up fuel buf parent_i                                (* i = parent_i *)
      end
    else Ok buf.

  Definition pq_push (max_size : Z) (s : pq) (value : T) (priority : Z) : res pq :=
    let '(buf, size) := s in
    if size >=? max_size then Panic msg_pq_push else
    buf <- put buf size (priority, value) ;;
    buf <- sift_up (Z.to_nat size) buf size ;;
    Ok (buf, size + 1).

  (* the `while True` loop of pop; returns the buffer and the final value of i *)
  Fixpoint sift_down (fuel : nat) (buf : list (option entry)) (new_size displaced_prio i : Z)
    : res (list (option entry) * Z) :=
    match fuel with
    | O => Fuel
    | S fuel =>
        let left_i := 2 * i + 1 in
        if left_i >=? new_size then Ok (buf, i) else                 (* break *)
        let right_i := left_i + 1 in
        '(buf, child_i, child) <-
          (if right_i <? new_size then
             '(left_elem, buf) <- take_some buf left_i ;;
             '(right_elem, buf) <- take_some buf right_i ;;
             let '(left_prio, left_val) := left_elem in
             let '(right_prio, right_val) := right_elem in
             if right_prio <? left_prio then
               buf <- put buf left_i (left_prio, left_val) ;;
               Ok (buf, right_i, (right_prio, right_val))
             else
               buf <- put buf right_i (right_prio, right_val) ;;
               Ok (buf, left_i, (left_prio, left_val))
           else
             '(left_elem, buf) <- take_some buf left_i ;;
             Ok (buf, left_i, left_elem)) ;;
        let '(child_prio, child_val) := child in
        if displaced_prio <=? child_prio then
          buf <- put buf child_i (child_prio, child_val) ;;
          Ok (buf, i)                                                (* break *)
        else
          buf <- put buf i (child_prio, child_val) ;;
          sift_down fuel buf new_size displaced_prio child_i         (* i = child_i *)
    end.

  Definition pq_pop (s : pq) : res (Z * T * pq) :=
    let '(buf, size) := s in
    if size <=? 0 then Panic msg_pq_pop else
    '((return_prio, return_val), buf) <- take_some buf 0 ;;
    let new_size := size - 1 in
    if new_size =? 0 then Ok (return_prio, return_val, (buf, new_size)) else
    '((displaced_prio, displaced_val), buf) <- take_some buf new_size ;;
    '(buf, i) <- sift_down (Z.to_nat new_size) buf new_size displaced_prio 0 ;;
    buf <- put buf i (displaced_prio, displaced_val) ;;
    Ok (return_prio, return_val, (buf, new_size)).

  Definition pq_peek (s : pq) : res (Z * T * pq) :=
    let '(buf, size) := s in
    if size <=? 0 then Panic msg_pq_peek else
    o <- a_get buf 0 ;;
    '(prio, val) <- unwrap o ;;
    Ok (prio, val, (buf, size)).

  Definition pq_discard_empty (s : pq) : res unit :=
    let '(buf, size) := s in
    if size >? 0 then Panic msg_pq_discard else
    all_nothing buf.

  Definition pq_next (s : pq) : res (option (Z * T * pq)) :=
    if pq_len s =? 0 then
      _ <- pq_discard_empty s ;; Ok None
    else
      '(prio, val, new_queue) <- pq_pop s ;; Ok (Some (prio, val, new_queue)).

  Inductive qop := QPush (v : T) (p : Z) | QPop | QPeek | QLen | QNext.
  Inductive qobs := QUnit | QEntry (p : Z) (v : T) | QLenIs (n : Z) | QNothing | QPanic (m : string) | QFuel.

  Definition lift_qobs {A} (r : res A) (f : A -> qobs * option pq) : qobs * option pq :=
    match r with Ok a => f a | Panic m => (QPanic m, None) | Fuel => (QFuel, None) end.

  Definition pq_step (max_size : Z) (s : pq) (o : qop) : qobs * option pq :=
    match o with
    | QPush v p => lift_qobs (pq_push max_size s v p) (fun s' => (QUnit, Some s'))
    | QPop => lift_qobs (pq_pop s) (fun '(p, v, s') => (QEntry p v, Some s'))
    | QPeek => lift_qobs (pq_peek s) (fun '(p, v, s') => (QEntry p v, Some s'))
    | QLen => (QLenIs (pq_len s), Some s)
    | QNext => lift_qobs (pq_next s)
                 (fun r => match r with None => (QNothing, None) | Some (p, v, s') => (QEntry p v, Some s') end)
    end.

  Fixpoint pq_run (max_size : Z) (ops : list qop) (s : pq) : list qobs * option pq :=
    match ops with
    | [] => ([], Some s)
    | o :: rest =>
        match pq_step max_size s o with
        | (ob, Some s') => let '(obs, fin) := pq_run max_size rest s' in (ob :: obs, fin)
        | (ob, None) => ([ob], None)
        end
    end.
End PQ.
