(** C27 — lemmas about option arrays: update, lookup, contents (as a list up to permutation). *)
From Coq Require Import ZArith List String Bool Lia Permutation.
From V.C27 Require Import ModelHeap.
Import ListNotations.
Open Scope Z_scope.

Ltac dlia := Z.to_euclidean_division_equations; lia.

Section Cells.
  Context {Y : Type}.
  Notation cells := (list (option Y)).

  Definition len (b : cells) : Z := Z.of_nat (List.length b).

  (** contents of the buffer, in index order *)
  Fixpoint entries (b : cells) : list Y :=
    match b with
    | [] => []
    | Some y :: t => y :: entries t
    | None :: t => entries t
    end.
  Definition olist (o : option Y) : list Y := match o with Some y => [y] | None => [] end.

  Lemma length_upd_nat : forall (b : cells) n x, List.length (upd_nat b n x) = List.length b.
  Proof. induction b; destruct n; simpl; intros; auto. Qed.

  Lemma nth_upd_nat_eq : forall (b : cells) n x, (n < List.length b)%nat -> nth n (upd_nat b n x) None = x.
  Proof. induction b; destruct n; simpl; intros; try lia; auto. apply IHb. lia. Qed.

  Lemma nth_upd_nat_neq : forall (b : cells) n m x, n <> m -> nth m (upd_nat b n x) None = nth m b None.
  Proof. induction b; destruct n; destruct m; simpl; intros; try lia; auto. Qed.

  Lemma entries_upd_nat : forall (b : cells) n x, (n < List.length b)%nat ->
    Permutation (olist (nth n b None) ++ entries (upd_nat b n x)) (olist x ++ entries b).
  Proof.
    induction b; intros n x H; simpl in H; try lia.
    destruct n; simpl.
    - destruct a, x; simpl; first [apply perm_swap | reflexivity].
    - assert (H' : (n < List.length b)%nat) by lia. specialize (IHb n x H').
      destruct a; simpl; auto.
      etransitivity; [apply Permutation_sym, Permutation_middle|].
      etransitivity; [|apply Permutation_middle]. constructor. exact IHb.
  Qed.

  Lemma len_nonneg : forall b : cells, 0 <= len b.
  Proof. unfold len; lia. Qed.

  Lemma idx_ok_iff : forall (b : cells) i, idx_ok b i = true <-> 0 <= i < len b.
  Proof. unfold idx_ok, len; intros. rewrite andb_true_iff, Z.leb_le, Z.ltb_lt. tauto. Qed.

  Lemma len_upd : forall (b : cells) i x, len (upd b i x) = len b.
  Proof. unfold len, upd; intros. now rewrite length_upd_nat. Qed.

  Lemma length_upd : forall (b : cells) i x, List.length (upd b i x) = List.length b.
  Proof. unfold upd; intros. now rewrite length_upd_nat. Qed.

  Lemma idx_ok_upd : forall (b : cells) i x j, idx_ok (upd b i x) j = idx_ok b j.
  Proof. unfold idx_ok; intros. now rewrite length_upd. Qed.

  Lemma bget_upd : forall (b : cells) i x j, 0 <= i < len b ->
    bget (upd b i x) j = if j =? i then x else bget b j.
  Proof.
    unfold bget, upd, len; intros b i x j H.
    destruct (Z.eqb_spec j i) as [->|N].
    - destruct (Z.leb_spec 0 i); try lia. apply nth_upd_nat_eq. lia.
    - destruct (Z.leb_spec 0 j); auto. apply nth_upd_nat_neq. lia.
  Qed.

  Lemma bget_oob : forall (b : cells) j, len b <= j -> bget b j = None.
  Proof.
    unfold bget, len; intros. destruct (Z.leb_spec 0 j); auto. apply nth_overflow. lia.
  Qed.

  Lemma bget_neg : forall (b : cells) j, j < 0 -> bget b j = None.
  Proof. unfold bget; intros. destruct (Z.leb_spec 0 j); auto; lia. Qed.

  Lemma entries_upd : forall (b : cells) i x, 0 <= i < len b ->
    Permutation (olist (bget b i) ++ entries (upd b i x)) (olist x ++ entries b).
  Proof.
    unfold bget, upd, len; intros. destruct (Z.leb_spec 0 i); try lia.
    apply entries_upd_nat. lia.
  Qed.

  Lemma entries_take : forall (b : cells) i y, 0 <= i < len b -> bget b i = Some y ->
    Permutation (entries b) (y :: entries (upd b i None)).
  Proof. intros b i y H G. pose proof (entries_upd b i None H) as P. rewrite G in P. simpl in P. now symmetry. Qed.

  Lemma entries_put : forall (b : cells) i y, 0 <= i < len b -> bget b i = None ->
    Permutation (entries (upd b i (Some y))) (y :: entries b).
  Proof. intros b i y H G. pose proof (entries_upd b i (Some y) H) as P. rewrite G in P. exact P. Qed.

  (** the two compound cell operations of the sources *)
  Lemma take_some_ok : forall (b : cells) i y, 0 <= i < len b -> bget b i = Some y ->
    take_some b i = Ok (y, upd b i None).
  Proof.
    intros b i y H G. unfold take_some, a_take, a_swap.
    apply idx_ok_iff in H. rewrite H. simpl. rewrite G. reflexivity.
  Qed.

  Lemma put_ok : forall (b : cells) i y, 0 <= i < len b -> bget b i = None ->
    put b i y = Ok (upd b i (Some y)).
  Proof.
    intros b i y H G. unfold put, a_swap.
    apply idx_ok_iff in H. rewrite H. simpl. rewrite G. reflexivity.
  Qed.

  Lemma take_some_nothing : forall (b : cells) i, 0 <= i < len b -> bget b i = None ->
    take_some b i = Panic msg_unwrap.
  Proof.
    intros b i H G. unfold take_some, a_take, a_swap.
    apply idx_ok_iff in H. rewrite H. simpl. rewrite G. reflexivity.
  Qed.

  Lemma a_get_ok : forall (b : cells) i, 0 <= i < len b -> a_get b i = Ok (bget b i).
  Proof. intros b i H. unfold a_get. apply idx_ok_iff in H. now rewrite H. Qed.

  (** [filled n b]: exactly the cells below n hold a value (the INVARIANT comment of the sources) *)
  Definition filled (n : Z) (b : cells) : Prop :=
    forall j, 0 <= j -> (j < n -> bget b j <> None) /\ (n <= j -> bget b j = None).

  Lemma all_nothing_ok : forall b : cells, (forall j, 0 <= j -> bget b j = None) -> all_nothing b = Ok tt.
  Proof.
    induction b; intros H; simpl; auto.
    pose proof (H 0 ltac:(lia)) as H0. unfold bget in H0; simpl in H0. subst a. simpl.
    apply IHb. intros j Hj. specialize (H (j + 1) ltac:(lia)).
    unfold bget in *. destruct (Z.leb_spec 0 (j + 1)); try lia. destruct (Z.leb_spec 0 j); try lia.
    replace (Z.to_nat (j + 1)) with (S (Z.to_nat j)) in H by lia. exact H.
  Qed.

  Lemma entries_all_nothing : forall b : cells, (forall j, 0 <= j -> bget b j = None) -> entries b = [].
  Proof.
    induction b; intros H; simpl; auto.
    pose proof (H 0 ltac:(lia)) as H0. unfold bget in H0; simpl in H0. subst a.
    apply IHb. intros j Hj. specialize (H (j + 1) ltac:(lia)).
    unfold bget in *. destruct (Z.leb_spec 0 (j + 1)); try lia. destruct (Z.leb_spec 0 j); try lia.
    replace (Z.to_nat (j + 1)) with (S (Z.to_nat j)) in H by lia. exact H.
  Qed.

  Lemma bget_repeat_none : forall n j, bget (repeat (@None Y) n) j = None.
  Proof.
    intros. unfold bget. destruct (0 <=? j); auto.
    generalize (Z.to_nat j) as k. induction n; destruct k; simpl; auto.
  Qed.

  Lemma entries_length_le : forall b : cells, (List.length (entries b) <= List.length b)%nat.
  Proof. induction b as [|[y|] b]; simpl; lia. Qed.

  (** every stored value is among the entries *)
  Lemma bget_in_entries : forall (b : cells) j y, bget b j = Some y -> In y (entries b).
  Proof.
    intros b j y H.
    assert (R : 0 <= j < len b).
    { destruct (Z.lt_ge_cases j 0). rewrite bget_neg in H by lia; discriminate.
      destruct (Z.lt_ge_cases j (len b)); try lia. rewrite bget_oob in H by lia; discriminate. }
    pose proof (entries_take b j y R H) as P.
    eapply Permutation_in; [symmetry; exact P|]. now left.
  Qed.

  Lemma in_entries_bget : forall (b : cells) y, In y (entries b) -> exists j, 0 <= j < len b /\ bget b j = Some y.
  Proof.
    induction b as [|a b]; simpl; intros y H; [contradiction|].
    assert (S : forall j, 0 <= j -> bget (a :: b) (j + 1) = bget b j).
    { intros j Hj. unfold bget. destruct (Z.leb_spec 0 (j + 1)); try lia. destruct (Z.leb_spec 0 j); try lia.
      replace (Z.to_nat (j + 1)) with (S (Z.to_nat j)) by lia. reflexivity. }
    assert (L : len (a :: b) = len b + 1) by (unfold len; simpl List.length; lia).
    destruct a as [y0|].
    - destruct H as [->|H].
      + exists 0. split. pose proof (len_nonneg b); lia. reflexivity.
      + destruct (IHb y H) as (j & Hj & G). exists (j + 1). split. lia. rewrite S by lia. exact G.
    - destruct (IHb y H) as (j & Hj & G). exists (j + 1). split. lia. rewrite S by lia. exact G.
  Qed.

  Lemma bget_cons_succ : forall (a : option Y) (b : cells) j, 0 <= j -> bget (a :: b) (j + 1) = bget b j.
  Proof.
    intros a b j Hj. unfold bget. destruct (Z.leb_spec 0 (j + 1)); try lia. destruct (Z.leb_spec 0 j); try lia.
    replace (Z.to_nat (j + 1)) with (S (Z.to_nat j)) by lia. reflexivity.
  Qed.

  Lemma filled_tail : forall n (a : option Y) (b : cells), filled n (a :: b) -> filled (n - 1) b.
  Proof.
    intros n a b F j Hj. specialize (F (j + 1) ltac:(lia)). rewrite bget_cons_succ in F by lia.
    destruct F as [F1 F2]. split; intros; [apply F1|apply F2]; lia.
  Qed.

  Lemma entries_length_filled : forall (b : cells) n, filled n b -> 0 <= n <= len b ->
    Z.of_nat (List.length (entries b)) = n.
  Proof.
    induction b as [|a b IH]; intros n F Hn.
    - unfold len in Hn. simpl in *. lia.
    - assert (L : len (a :: b) = len b + 1) by (unfold len; simpl List.length; lia).
      pose proof (F 0 ltac:(lia)) as [F1 F2]. unfold bget in F1, F2; simpl in F1, F2.
      pose proof (filled_tail _ _ _ F) as Ft.
      destruct (Z.eq_dec n 0) as [->|N].
      + rewrite F2 by lia. simpl entries.
        rewrite (entries_all_nothing b); [reflexivity|]. intros j Hj. apply (Ft j Hj). lia.
      + destruct a as [y|]; [|exfalso; apply F1; auto; lia].
        simpl entries. simpl List.length. rewrite Nat2Z.inj_succ. rewrite (IH (n - 1)); auto; lia.
  Qed.
End Cells.
