(** C27 — `for x in stack:` / `for (prio, x) in queue:`.  Guppy's for loop calls __iter__ (both
    classes return self) and then __next__ until it yields nothing(); the list of yielded values
    is what the loop body sees.  Loop on fuel; out of fuel is [Fuel].  Definitions only. *)
From Coq Require Import ZArith List String Bool.
From V.C27 Require Import ModelHeap.
Import ListNotations.
Open Scope Z_scope.

Section Iter.
  Context {T : Type}.

  Definition stack_iter_self (s : @stack T) : @stack T := s.       (* __iter__ *)
  Definition pq_iter_self (s : @pq T) : @pq T := s.                (* __iter__ *)

  Fixpoint stack_iter (fuel : nat) (s : @stack T) : res (list T) :=
    match fuel with
    | O => Fuel
    | S fuel =>
        r <- stack_next s ;;
        match r with
        | None => Ok []
        | Some (v, s') => l <- stack_iter fuel s' ;; Ok (v :: l)
        end
    end.

  Fixpoint pq_iter (fuel : nat) (s : @pq T) : res (list (Z * T)) :=
    match fuel with
    | O => Fuel
    | S fuel =>
        r <- pq_next s ;;
        match r with
        | None => Ok []
        | Some (p, v, s') => l <- pq_iter fuel s' ;; Ok ((p, v) :: l)
        end
    end.
End Iter.
