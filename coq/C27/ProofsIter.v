(** C27 — iterating a Stack yields its elements top to bottom; iterating a PriorityQueue yields
    all its entries in non-decreasing priority order (heap sort). *)
From Coq Require Import ZArith List String Bool Lia Permutation.
From V.C27 Require Import ModelHeap ModelIter Spec ProofsCells ProofsStack ProofsPQ.
Import ListNotations.
Open Scope Z_scope.

Section IterProofs.
  Context {T : Type}.

  Lemma stack_iter_spec : forall fuel m (s : @stack T) l, stack_rep m s l ->
    (List.length l < fuel)%nat -> stack_iter fuel (stack_iter_self s) = Ok l.
  Proof.
    unfold stack_iter_self.
    induction fuel as [|fuel IH]; intros m s l R Hf; [lia|].
    cbn [stack_iter]. destruct l as [|v l].
    - rewrite (ProofsStack.next_empty m s R). reflexivity.
    - destruct (next_rep m s l v R) as (s' & -> & R'). cbn [bind].
      rewrite (IH m s' l R') by (simpl in Hf; lia). reflexivity.
  Qed.

  Lemma pq_iter_spec : forall fuel m (s : @pq T), pq_inv m s -> (Z.to_nat (snd s) < fuel)%nat ->
    exists l, pq_iter fuel (pq_iter_self s) = Ok l /\ sorted_prio l /\ Permutation l (contents s).
  Proof.
    unfold pq_iter_self.
    induction fuel as [|fuel IH]; intros m s Inv Hf; [lia|].
    cbn [pq_iter]. pose proof (size_is_length m s Inv) as Hlen.
    assert (Hsz : 0 <= snd s) by (destruct s; destruct Inv as (_ & ? & _); simpl; lia).
    destruct (Z.eq_dec (snd s) 0) as [Hz|Hnz].
    - rewrite (ProofsPQ.next_empty m s Inv Hz). cbn [bind]. exists []. split; [reflexivity|].
      split; [constructor|]. destruct (contents s); [constructor|simpl in Hlen; lia].
    - destruct (pop_spec m s Inv ltac:(lia)) as (p & v & s' & Hp & Inv' & Hs' & Hm & E).
      unfold pq_next, pq_len. destruct (Z.eqb_spec (snd s) 0); [lia|]. rewrite Hp. cbn [bind].
      destruct (IH m s' Inv' ltac:(lia)) as (l & -> & Sl & Pl). cbn [bind].
      exists ((p, v) :: l). split; [reflexivity|]. split.
      + constructor; auto. intros e' He'. apply (proj2 Hm).
        eapply Permutation_in; [symmetry; exact E|]. right. eapply Permutation_in; eauto.
      + etransitivity; [|symmetry; exact E]. constructor. exact Pl.
  Qed.
End IterProofs.
