(** C27 — PriorityQueue: push/pop keep the representation invariant (prefix of `some`, binary
    min-heap order), preserve the multiset of entries, pop/peek return an entry of minimal
    priority, the loops never run out of fuel and never hit an Option/array panic. *)
From Coq Require Import ZArith List String Bool Lia Permutation.
From V.C27 Require Import ModelHeap Spec ProofsCells.
Import ListNotations.
Open Scope Z_scope.

Ltac bg :=
  repeat (rewrite bget_upd by (rewrite ?len_upd; lia));
  repeat match goal with |- context [Z.eqb ?a ?b] => destruct (Z.eqb_spec a b); try lia end;
  auto.

Section PQProofs.
  Context {T : Type}.
  Notation entry := (Z * T)%type.
  Notation cells := (list (option entry)).
  Notation pq := (@pq T).

  Definition prio_at (b : cells) (j : Z) : Z := match bget b j with Some e => fst e | None => 0 end.

  (** binary min-heap order on the first n cells: parent (j-1)/2 is not larger than child j *)
  Definition heap_ok (n : Z) (b : cells) : Prop :=
    forall j, 0 < j < n -> prio_at b ((j - 1) / 2) <= prio_at b j.

  (** the class invariant: buffer of MAX_SIZE cells, the first [size] are `some`, the rest
      `nothing` (comment in the source), and heap order *)
  Definition pq_inv (max_size : Z) (s : pq) : Prop :=
    let '(b, n) := s in len b = max_size /\ 0 <= n <= max_size /\ filled n b /\ heap_ok n b.

  Definition contents (s : pq) : list entry := entries (fst s).

  (** ** sift-up *)
  Lemma sift_up_spec : forall fuel (b : cells) i n,
    (Z.to_nat i <= fuel)%nat -> 0 <= i < n -> n <= len b -> filled n b ->
    (forall j, 0 < j < n -> j <> i -> prio_at b ((j - 1) / 2) <= prio_at b j) ->
    (0 < i -> forall j, 0 < j < n -> (j - 1) / 2 = i -> prio_at b ((i - 1) / 2) <= prio_at b j) ->
    exists b', sift_up fuel b i = Ok b' /\ len b' = len b /\ filled n b' /\ heap_ok n b' /\
               Permutation (entries b') (entries b).
  Proof.
    induction fuel as [|fuel IH]; intros b i n Hf Hi Hn Fl Ho Hg.
    - assert (i = 0) by lia. subst. simpl. exists b. repeat split; auto; try apply Fl; auto.
      intros j Hj. apply Ho; lia.
    - cbn [sift_up]. unfold ModelHeap.entry in *. destruct (Z.gtb_spec i 0) as [Hpos|Hz].
      2:{ assert (i = 0) by lia. subst. exists b. repeat split; auto; try apply Fl; auto.
          intros j Hj. apply Ho; lia. }
      set (p := (i - 1) / 2) in *. assert (Hp : 0 <= p < i) by (unfold p; dlia).
      destruct (bget b i) as [[pi vi]|] eqn:Gi.
      2:{ exfalso. apply (proj1 (Fl i ltac:(lia))); auto; lia. }
      destruct (bget b p) as [[pp vp]|] eqn:Gp.
      2:{ exfalso. apply (proj1 (Fl p ltac:(lia))); auto; lia. }
      rewrite (take_some_ok b i (pi, vi)); [|lia|auto]. cbn [bind].
      rewrite (take_some_ok (upd b i None) p (pp, vp)); [|rewrite ?len_upd; lia|bg]. cbn [bind].
      set (b2 := upd (upd b i None) p None).
      assert (L2 : len b2 = len b) by (unfold b2; now rewrite !len_upd).
      assert (E2 : Permutation (entries b) ((pi, vi) :: (pp, vp) :: entries b2)).
      { etransitivity; [apply (entries_take b i (pi, vi)); [lia|auto]|]. constructor.
        apply entries_take; [rewrite ?len_upd; lia|bg]. }
      assert (X : forall x y, exists b4,
                 (b3 <- put b2 i x ;; b4 <- put b3 p y ;; Ok b4) = Ok b4 /\ len b4 = len b /\
                 (forall j, bget b4 j = if j =? p then Some y else if j =? i then Some x else bget b j) /\
                 Permutation (entries b4) (y :: x :: entries b2)).
      { intros x y. exists (upd (upd b2 i (Some x)) p (Some y)).
        rewrite (put_ok b2 i x); [|lia|unfold b2; bg]. cbn [bind].
        rewrite (put_ok (upd b2 i (Some x)) p y); [|rewrite ?len_upd; lia|unfold b2; bg]. cbn [bind].
        split; [reflexivity|]. split; [now rewrite !len_upd|]. split.
        - intros j. unfold b2. bg.
        - etransitivity; [apply entries_put; [rewrite ?len_upd; lia|unfold b2; bg]|]. constructor.
          apply entries_put; [lia|unfold b2; bg]. }
      destruct (Z.geb_spec pi pp) as [Hge|Hlt].
      + (* already in order: put both back, break *)
        destruct (X (pi, vi) (pp, vp)) as (b4 & Hrun & L4 & B4 & E4).
        change (put b2 i (pi, vi)) with (put b2 i (pi, vi)) in Hrun.
        exists b4. split.
        { revert Hrun. unfold bind. destruct (put b2 i (pi, vi)); try discriminate.
          destruct (put a p (pp, vp)); try discriminate. auto. }
        assert (Same : forall j, bget b4 j = bget b j).
        { intros j. rewrite B4. destruct (Z.eqb_spec j p); [subst; auto|].
          destruct (Z.eqb_spec j i); [subst; auto|auto]. }
        assert (SameP : forall j, prio_at b4 j = prio_at b j) by (intros; unfold prio_at; now rewrite Same).
        split; [auto|]. split.
        { intros j Hj. rewrite Same. apply Fl; auto. }
        split.
        { intros j Hj. rewrite !SameP. destruct (Z.eq_dec j i) as [->|N].
          - fold p. unfold prio_at. rewrite Gi, Gp. simpl. lia.
          - apply Ho; auto. }
        { etransitivity; [exact E4|]. symmetry. etransitivity; [exact E2|]. apply perm_swap. }
      + (* swap with the parent and continue from there *)
        destruct (X (pp, vp) (pi, vi)) as (b4 & Hrun & L4 & B4 & E4).
        assert (Hput : exists b3, put b2 i (pp, vp) = Ok b3 /\ put b3 p (pi, vi) = Ok b4).
        { revert Hrun. unfold bind. destruct (put b2 i (pp, vp)) as [b3| |]; try discriminate.
          destruct (put b3 p (pi, vi)) eqn:P2; try discriminate. intros H; inversion H; subst. eauto. }
        destruct Hput as (b3 & -> & P2). cbn [bind]. rewrite P2. cbn [bind].
        assert (PP : forall j, prio_at b4 j = if j =? p then pi else if j =? i then pp else prio_at b j).
        { intros j. unfold prio_at. rewrite B4. destruct (Z.eqb_spec j p); auto. destruct (Z.eqb_spec j i); auto. }
        assert (Pi : prio_at b i = pi) by (unfold prio_at; now rewrite Gi).
        assert (Ppar : prio_at b p = pp) by (unfold prio_at; now rewrite Gp).
        destruct (IH b4 p n) as (b' & Hs & L' & F' & H' & E').
        * lia.
        * lia.
        * lia.
        * intros j Hj. rewrite B4. destruct (Z.eqb_spec j p); [split; [discriminate|lia]|].
          destruct (Z.eqb_spec j i); [split; [discriminate|lia]|]. apply Fl; auto.
        * (* order everywhere except at the edge into p *)
          intros j Hj Np. rewrite !PP.
          assert (Hq : 0 <= (j - 1) / 2 < j) by dlia.
          destruct (Z.eqb_spec j p); [lia|].
          destruct (Z.eqb_spec j i) as [->|Ni].
          { fold p. destruct (Z.eqb_spec p p); lia. }
          destruct (Z.eqb_spec ((j - 1) / 2) p) as [Ep|Nep].
          { (* sibling of i *) pose proof (Ho j Hj Ni) as H1. rewrite Ep, Ppar in H1. lia. }
          destruct (Z.eqb_spec ((j - 1) / 2) i) as [Ei|Nei].
          { (* child of i *) pose proof (Hg Hpos j Hj Ei) as H1. fold p in H1. rewrite Ppar in H1. lia. }
          apply Ho; auto.
        * (* children of p are not below p's parent *)
          intros Hp0 j Hj Ep. rewrite !PP.
          assert (Hq : 0 <= (p - 1) / 2 < p) by dlia.
          destruct (Z.eqb_spec ((p - 1) / 2) p); [lia|].
          destruct (Z.eqb_spec ((p - 1) / 2) i); [lia|].
          destruct (Z.eqb_spec j p); [dlia|].
          pose proof (Ho p ltac:(lia) ltac:(lia)) as H0. rewrite Ppar in H0.
          destruct (Z.eqb_spec j i) as [->|Ni]; [lia|].
          pose proof (Ho j Hj Ni) as H1. rewrite Ep, Ppar in H1. lia.
        * exists b'. split; [exact Hs|]. split; [lia|]. split; [auto|]. split; [auto|].
          etransitivity; [exact E'|]. etransitivity; [exact E4|]. symmetry. exact E2.
  Qed.
End PQProofs.
