(** C27 — PriorityQueue: push/pop keep the representation invariant (prefix of `some`, binary
    min-heap order), preserve the multiset of entries, pop/peek return an entry of minimal
    priority, the loops never run out of fuel and never hit an Option/array panic. *)
From Coq Require Import ZArith List String Bool Lia Permutation.
From V.C27 Require Import ModelHeap Spec ProofsCells.
Import ListNotations.
Open Scope Z_scope.

Ltac bg :=
  repeat (rewrite bget_upd by (rewrite ?len_upd; lia));
  repeat match goal with |- context [Z.eqb ?a ?b] => destruct (Z.eqb_spec a b); try lia end;
  auto.

Section PQProofs.
  Context {T : Type}.
  Notation entry := (Z * T)%type.
  Notation cells := (list (option entry)).
  Notation pq := (@pq T).

  Definition prio_at (b : cells) (j : Z) : Z := match bget b j with Some e => fst e | None => 0 end.

  (** binary min-heap order on the first n cells: parent (j-1)/2 is not larger than child j *)
  Definition heap_ok (n : Z) (b : cells) : Prop :=
    forall j, 0 < j < n -> prio_at b ((j - 1) / 2) <= prio_at b j.

  (** the class invariant: buffer of MAX_SIZE cells, the first [size] are `some`, the rest
      `nothing` (comment in the source), and heap order *)
  Definition pq_inv (max_size : Z) (s : pq) : Prop :=
    let '(b, n) := s in len b = max_size /\ 0 <= n <= max_size /\ filled n b /\ heap_ok n b.

  Definition contents (s : pq) : list entry := entries (fst s).

  (** ** sift-up *)
  Lemma sift_up_spec : forall fuel (b : cells) i n,
    (Z.to_nat i <= fuel)%nat -> 0 <= i < n -> n <= len b -> filled n b ->
    (forall j, 0 < j < n -> j <> i -> prio_at b ((j - 1) / 2) <= prio_at b j) ->
    (0 < i -> forall j, 0 < j < n -> (j - 1) / 2 = i -> prio_at b ((i - 1) / 2) <= prio_at b j) ->
    exists b', sift_up fuel b i = Ok b' /\ len b' = len b /\ filled n b' /\ heap_ok n b' /\
               Permutation (entries b') (entries b).
  Proof.
    induction fuel as [|fuel IH]; intros b i n Hf Hi Hn Fl Ho Hg.
    - assert (i = 0) by lia. subst. simpl. exists b. repeat split; auto; try apply Fl; auto.
      intros j Hj. apply Ho; lia.
    - cbn [sift_up]. unfold ModelHeap.entry in *. destruct (Z.gtb_spec i 0) as [Hpos|Hz].
      2:{ assert (i = 0) by lia. subst. exists b. repeat split; auto; try apply Fl; auto.
          intros j Hj. apply Ho; lia. }
      set (p := (i - 1) / 2) in *. assert (Hp : 0 <= p < i) by (unfold p; dlia).
      destruct (bget b i) as [[pi vi]|] eqn:Gi.
      2:{ exfalso. apply (proj1 (Fl i ltac:(lia))); auto; lia. }
      destruct (bget b p) as [[pp vp]|] eqn:Gp.
      2:{ exfalso. apply (proj1 (Fl p ltac:(lia))); auto; lia. }
      rewrite (take_some_ok b i (pi, vi)); [|lia|auto]. cbn [bind].
      rewrite (take_some_ok (upd b i None) p (pp, vp)); [|rewrite ?len_upd; lia|bg]. cbn [bind].
      set (b2 := upd (upd b i None) p None).
      assert (L2 : len b2 = len b) by (unfold b2; now rewrite !len_upd).
      assert (E2 : Permutation (entries b) ((pi, vi) :: (pp, vp) :: entries b2)).
      { etransitivity; [apply (entries_take b i (pi, vi)); [lia|auto]|]. constructor.
        apply entries_take; [rewrite ?len_upd; lia|bg]. }
      assert (X : forall x y, exists b4,
                 (b3 <- put b2 i x ;; b4 <- put b3 p y ;; Ok b4) = Ok b4 /\ len b4 = len b /\
                 (forall j, bget b4 j = if j =? p then Some y else if j =? i then Some x else bget b j) /\
                 Permutation (entries b4) (y :: x :: entries b2)).
      { intros x y. exists (upd (upd b2 i (Some x)) p (Some y)).
        rewrite (put_ok b2 i x); [|lia|unfold b2; bg]. cbn [bind].
        rewrite (put_ok (upd b2 i (Some x)) p y); [|rewrite ?len_upd; lia|unfold b2; bg]. cbn [bind].
        split; [reflexivity|]. split; [now rewrite !len_upd|]. split.
        - intros j. unfold b2. bg.
        - etransitivity; [apply entries_put; [rewrite ?len_upd; lia|unfold b2; bg]|]. constructor.
          apply entries_put; [lia|unfold b2; bg]. }
      destruct (Z.geb_spec pi pp) as [Hge|Hlt].
      + (* already in order: put both back, break *)
        destruct (X (pi, vi) (pp, vp)) as (b4 & Hrun & L4 & B4 & E4).
        change (put b2 i (pi, vi)) with (put b2 i (pi, vi)) in Hrun.
        exists b4. split.
        { revert Hrun. unfold bind. destruct (put b2 i (pi, vi)); try discriminate.
          destruct (put a p (pp, vp)); try discriminate. auto. }
        assert (Same : forall j, bget b4 j = bget b j).
        { intros j. rewrite B4. destruct (Z.eqb_spec j p); [subst; auto|].
          destruct (Z.eqb_spec j i); [subst; auto|auto]. }
        assert (SameP : forall j, prio_at b4 j = prio_at b j) by (intros; unfold prio_at; now rewrite Same).
        split; [auto|]. split.
        { intros j Hj. rewrite Same. apply Fl; auto. }
        split.
        { intros j Hj. rewrite !SameP. destruct (Z.eq_dec j i) as [->|N].
          - fold p. unfold prio_at. rewrite Gi, Gp. simpl. lia.
          - apply Ho; auto. }
        { etransitivity; [exact E4|]. symmetry. etransitivity; [exact E2|]. apply perm_swap. }
      + (* swap with the parent and continue from there *)
        destruct (X (pp, vp) (pi, vi)) as (b4 & Hrun & L4 & B4 & E4).
        assert (Hput : exists b3, put b2 i (pp, vp) = Ok b3 /\ put b3 p (pi, vi) = Ok b4).
        { revert Hrun. unfold bind. destruct (put b2 i (pp, vp)) as [b3| |]; try discriminate.
          destruct (put b3 p (pi, vi)) eqn:P2; try discriminate. intros H; inversion H; subst. eauto. }
        destruct Hput as (b3 & -> & P2). cbn [bind]. rewrite P2. cbn [bind].
        assert (PP : forall j, prio_at b4 j = if j =? p then pi else if j =? i then pp else prio_at b j).
        { intros j. unfold prio_at. rewrite B4. destruct (Z.eqb_spec j p); auto. destruct (Z.eqb_spec j i); auto. }
        assert (Pi : prio_at b i = pi) by (unfold prio_at; now rewrite Gi).
        assert (Ppar : prio_at b p = pp) by (unfold prio_at; now rewrite Gp).
        destruct (IH b4 p n) as (b' & Hs & L' & F' & H' & E').
        * lia.
        * lia.
        * lia.
        * intros j Hj. rewrite B4. destruct (Z.eqb_spec j p); [split; [discriminate|lia]|].
          destruct (Z.eqb_spec j i); [split; [discriminate|lia]|]. apply Fl; auto.
        * (* order everywhere except at the edge into p *)
          intros j Hj Np. rewrite !PP.
          assert (Hq : 0 <= (j - 1) / 2 < j) by dlia.
          destruct (Z.eqb_spec j p); [lia|].
          destruct (Z.eqb_spec j i) as [->|Ni].
          { fold p. destruct (Z.eqb_spec p p); lia. }
          destruct (Z.eqb_spec ((j - 1) / 2) p) as [Ep|Nep].
          { (* sibling of i *) pose proof (Ho j Hj Ni) as H1. rewrite Ep, Ppar in H1. lia. }
          destruct (Z.eqb_spec ((j - 1) / 2) i) as [Ei|Nei].
          { (* child of i *) pose proof (Hg Hpos j Hj Ei) as H1. fold p in H1. rewrite Ppar in H1. lia. }
          apply Ho; auto.
        * (* children of p are not below p's parent *)
          intros Hp0 j Hj Ep. rewrite !PP.
          assert (Hq : 0 <= (p - 1) / 2 < p) by dlia.
          destruct (Z.eqb_spec ((p - 1) / 2) p); [lia|].
          destruct (Z.eqb_spec ((p - 1) / 2) i); [lia|].
          destruct (Z.eqb_spec j p); [dlia|].
          pose proof (Ho p ltac:(lia) ltac:(lia)) as H0. rewrite Ppar in H0.
          destruct (Z.eqb_spec j i) as [->|Ni]; [lia|].
          pose proof (Ho j Hj Ni) as H1. rewrite Ep, Ppar in H1. lia.
        * exists b'. split; [exact Hs|]. split; [lia|]. split; [auto|]. split; [auto|].
          etransitivity; [exact E'|]. etransitivity; [exact E4|]. symmetry. exact E2.
  Qed.

  (** ** push *)
  Lemma push_spec : forall m (s : pq) v p, pq_inv m s -> snd s < m ->
    exists s', pq_push m s v p = Ok s' /\ pq_inv m s' /\ snd s' = snd s + 1 /\
               Permutation (contents s') ((p, v) :: contents s).
  Proof.
    intros m [b n] v p (Hl & Hn & Fl & Ho) Hlt. simpl in Hlt. unfold pq_push. unfold ModelHeap.entry in *.
    destruct (Z.geb_spec n m); try lia.
    assert (Gn : bget b n = None) by (apply (proj2 (Fl n ltac:(lia))); lia).
    rewrite (put_ok b n (p, v)); [|lia|auto]. cbn [bind].
    set (b1 := upd b n (Some (p, v))).
    assert (B1 : forall j, bget b1 j = if j =? n then Some (p, v) else bget b j) by (intros; unfold b1; bg).
    assert (P1 : forall j, j <> n -> prio_at b1 j = prio_at b j).
    { intros j Hj. unfold prio_at. rewrite B1. destruct (Z.eqb_spec j n); [lia|auto]. }
    destruct (sift_up_spec (Z.to_nat n) b1 n (n + 1)) as (b' & Hs & L' & F' & H' & E').
    - lia.
    - lia.
    - unfold b1. rewrite len_upd. lia.
    - intros j Hj. rewrite B1. destruct (Z.eqb_spec j n); [split; [discriminate|lia]|].
      split; intros; apply Fl; auto; lia.
    - intros j Hj Nj. assert (0 <= (j - 1) / 2 < j) by dlia. rewrite !P1 by lia. apply Ho. lia.
    - intros _ j Hj Ej. exfalso. dlia.
    - rewrite Hs. cbn [bind]. eexists; split; [reflexivity|]. split.
      + unfold pq_inv; unfold ModelHeap.entry in *. split; [unfold b1 in L'; rewrite len_upd in L'; lia|]. split; [lia|]. auto.
      + split; [reflexivity|]. unfold contents; simpl fst. etransitivity; [exact E'|].
        unfold b1. apply entries_put; [lia|auto].
  Qed.

  Lemma push_full : forall m (s : pq) v p, snd s >= m -> pq_push m s v p = Panic msg_pq_push.
  Proof. intros m [b n] v p H. simpl in H. unfold pq_push. destruct (Z.geb_spec n m); auto; lia. Qed.

  (** ** sift-down (with a hole at i and the displaced entry of priority dp held outside) *)
  Definition vprio (b : cells) (i dp j : Z) : Z := if j =? i then dp else prio_at b j.
  Definition holed (n i : Z) (b : cells) : Prop :=
    forall j, 0 <= j -> (j < n -> j <> i -> bget b j <> None) /\ (n <= j \/ j = i -> bget b j = None).

  Lemma sift_down_spec : forall fuel (b : cells) n dp i,
    (Z.to_nat (n - i) <= fuel)%nat -> 0 <= i < n -> n <= len b -> holed n i b ->
    (forall j, 0 < j < n -> (j - 1) / 2 <> i -> vprio b i dp ((j - 1) / 2) <= vprio b i dp j) ->
    (0 < i -> forall j, 0 < j < n -> (j - 1) / 2 = i -> vprio b i dp ((i - 1) / 2) <= vprio b i dp j) ->
    exists b' i', sift_down fuel b n dp i = Ok (b', i') /\ len b' = len b /\ 0 <= i' < n /\
      holed n i' b' /\
      (forall j, 0 < j < n -> vprio b' i' dp ((j - 1) / 2) <= vprio b' i' dp j) /\
      Permutation (entries b') (entries b).
  Proof.
    induction fuel as [|fuel IH]; intros b n dp i Hf Hi Hn Hh Ho Hg; [lia|].
    cbn [sift_down]. unfold ModelHeap.entry in *.
    set (l := 2 * i + 1) in *.
    destruct (Z.geb_spec l n) as [Hleaf|Hl].
    { exists b, i. split; [reflexivity|]. split; [auto|]. split; [auto|]. split; [auto|]. split; [|auto].
      intros j Hj. apply Ho; auto. unfold l in Hleaf. dlia. }
    set (r := l + 1) in *.
    match goal with |- context [bind (if ?c then ?A else ?B) _] => set (CH := if c then A else B) end.
    assert (HC : exists bc c cp cv, CH = Ok (bc, c, (cp, cv)) /\ (c = l \/ c = r) /\ c < n /\
              bget b c = Some (cp, cv) /\ len bc = len b /\
              (forall j, bget bc j = if j =? c then None else bget b j) /\
              Permutation (entries b) ((cp, cv) :: entries bc) /\
              (forall j, 0 < j < n -> (j - 1) / 2 = i -> cp <= prio_at b j)).
    { unfold CH. destruct (bget b l) as [[lp lv]|] eqn:Gl.
      2:{ exfalso. apply (proj1 (Hh l ltac:(unfold l; lia))); auto; unfold l; lia. }
      assert (Pl : prio_at b l = lp) by (unfold prio_at; now rewrite Gl).
      destruct (Z.ltb_spec r n) as [Hr|Hr].
      - destruct (bget b r) as [[rp rv]|] eqn:Gr.
        2:{ exfalso. apply (proj1 (Hh r ltac:(unfold r, l; lia))); auto; unfold r, l; lia. }
        assert (Pr : prio_at b r = rp) by (unfold prio_at; now rewrite Gr).
        rewrite (take_some_ok b l (lp, lv)); [|unfold l; lia|auto]. cbn [bind].
        rewrite (take_some_ok (upd b l None) r (rp, rv)); [|rewrite ?len_upd; unfold r, l; lia|unfold r; bg].
        cbn [bind].
        assert (E2 : Permutation (entries b) ((lp, lv) :: (rp, rv) :: entries (upd (upd b l None) r None))).
        { etransitivity; [apply (entries_take b l (lp, lv)); [unfold l; lia|auto]|]. constructor.
          apply entries_take; [rewrite ?len_upd; unfold r, l; lia|unfold r; bg]. }
        destruct (Z.ltb_spec rp lp) as [Hlt|Hge].
        + rewrite (put_ok _ l (lp, lv)); [|rewrite ?len_upd; unfold l; lia|unfold r; bg]. cbn [bind].
          exists (upd (upd (upd b l None) r None) l (Some (lp, lv))), r, rp, rv.
          split; [reflexivity|]. split; [auto|]. split; [auto|]. split; [auto|].
          split; [now rewrite !len_upd|]. split.
          { intros j. unfold r. bg. subst. auto. }
          split.
          { etransitivity; [exact E2|]. etransitivity; [apply perm_swap|]. constructor. symmetry.
            apply entries_put; [rewrite ?len_upd; unfold l; lia|unfold r; bg]. }
          { intros j Hj Ej. assert (j = l \/ j = r) as [->| ->] by (unfold r, l; dlia); lia. }
        + rewrite (put_ok _ r (rp, rv)); [|rewrite ?len_upd; unfold r, l; lia|unfold r; bg]. cbn [bind].
          exists (upd (upd (upd b l None) r None) r (Some (rp, rv))), l, lp, lv.
          split; [reflexivity|]. split; [auto|]. split; [lia|]. split; [auto|].
          split; [now rewrite !len_upd|]. split.
          { intros j. unfold r. bg. subst. auto. }
          split.
          { etransitivity; [exact E2|]. constructor. symmetry.
            apply entries_put; [rewrite ?len_upd; unfold r, l; lia|unfold r; bg]. }
          { intros j Hj Ej. assert (j = l \/ j = r) as [->| ->] by (unfold r, l; dlia); lia. }
      - rewrite (take_some_ok b l (lp, lv)); [|unfold l; lia|auto]. cbn [bind].
        exists (upd b l None), l, lp, lv.
        split; [reflexivity|]. split; [auto|]. split; [lia|]. split; [auto|].
        split; [now rewrite !len_upd|]. split.
        { intros j. bg. }
        split.
        { apply entries_take; [unfold l; lia|auto]. }
        { intros j Hj Ej. assert (j = l) as -> by (unfold r, l in *; dlia). lia. } }
    destruct HC as (bc & c & cp & cv & -> & Hc & Hcn & Gc & Lc & Bc & Ec & Hmin). cbn [bind].
    assert (Hci : i < c /\ (c - 1) / 2 = i) by (unfold r, l in *; dlia). destruct Hci as [Hci Hcp].
    assert (Pc : prio_at b c = cp) by (unfold prio_at; now rewrite Gc).
    assert (Gi : bget b i = None) by (apply (proj2 (Hh i ltac:(lia))); auto).
    destruct (Z.leb_spec dp cp) as [Hle|Hgt].
    - (* the displaced entry fits here: put the child back, break *)
      rewrite (put_ok bc c (cp, cv)); [|lia|rewrite Bc; bg]. cbn [bind].
      set (b2 := upd bc c (Some (cp, cv))).
      assert (Same : forall j, bget b2 j = bget b j).
      { intros j. unfold b2. rewrite bget_upd by lia. rewrite Bc. destruct (Z.eqb_spec j c); [subst; auto|auto]. }
      assert (SameV : forall j, vprio b2 i dp j = vprio b i dp j).
      { intros j. unfold vprio, prio_at. now rewrite Same. }
      exists b2, i. split; [reflexivity|]. split; [unfold b2; rewrite len_upd; lia|]. split; [auto|]. split.
      { intros j Hj. rewrite Same. apply Hh; auto. }
      split.
      { intros j Hj. rewrite !SameV. destruct (Z.eq_dec ((j - 1) / 2) i) as [Ej|Nj]; [|apply Ho; auto].
        rewrite Ej. pose proof (Hmin j Hj Ej). unfold vprio. destruct (Z.eqb_spec i i); try lia.
        destruct (Z.eqb_spec j i); [dlia|lia]. }
      { symmetry. etransitivity; [exact Ec|]. symmetry. unfold b2. apply entries_put; [lia|rewrite Bc; bg]. }
    - (* move the child up into the hole, continue from the child's cell *)
      rewrite (put_ok bc i (cp, cv)); [|lia|rewrite Bc; bg]. cbn [bind].
      set (b3 := upd bc i (Some (cp, cv))).
      assert (B3 : forall j, bget b3 j = if j =? i then Some (cp, cv) else if j =? c then None else bget b j).
      { intros j. unfold b3. rewrite bget_upd by lia. now rewrite Bc. }
      assert (V3 : forall j, vprio b3 c dp j = if j =? c then dp else if j =? i then cp else prio_at b j).
      { intros j. unfold vprio, prio_at. rewrite B3. destruct (Z.eqb_spec j c); auto. destruct (Z.eqb_spec j i); auto. }
      assert (V0 : forall j, j <> i -> vprio b i dp j = prio_at b j).
      { intros j Hj. unfold vprio. destruct (Z.eqb_spec j i); [lia|auto]. }
      destruct (IH b3 n dp c) as (b' & i' & Hs & L' & Hi' & Hh' & Ho' & E').
      + lia.
      + lia.
      + unfold b3. rewrite len_upd. lia.
      + intros j Hj. rewrite B3. destruct (Z.eqb_spec j i); [split; [discriminate|lia]|].
        destruct (Z.eqb_spec j c); [split; [lia|auto]|]. split; intros; apply Hh; auto; lia.
      + intros j Hj Nc. rewrite !V3. assert (Hq : 0 <= (j - 1) / 2 < j) by dlia.
        destruct (Z.eqb_spec ((j - 1) / 2) c); [lia|].
        destruct (Z.eqb_spec ((j - 1) / 2) i) as [Ei|Ni].
        * (* j is c or its sibling *)
          destruct (Z.eqb_spec j c); [lia|]. destruct (Z.eqb_spec j i); [lia|]. apply Hmin; auto.
        * destruct (Z.eqb_spec j c) as [Ejc|Njc]; [exfalso; apply Ni; rewrite Ejc; exact Hcp|].
          destruct (Z.eqb_spec j i) as [->|Nji].
          { (* j = i: the parent of the old hole *)
            pose proof (Hg ltac:(lia) c ltac:(lia) Hcp) as H1.
            rewrite (V0 c) in H1 by lia. rewrite V0 in H1 by lia. lia. }
          pose proof (Ho j Hj Ni) as H1. rewrite !V0 in H1 by lia. exact H1.
      + intros _ j Hj Ec'. rewrite !V3. rewrite Hcp.
        destruct (Z.eqb_spec i c); [lia|]. destruct (Z.eqb_spec i i); [|lia].
        destruct (Z.eqb_spec j c); [dlia|]. destruct (Z.eqb_spec j i); [dlia|].
        pose proof (Ho j Hj ltac:(lia)) as H1. rewrite Ec' in H1. rewrite !V0 in H1 by lia. lia.
      + exists b', i'. split; [exact Hs|]. split; [unfold b3 in L'; rewrite len_upd in L'; lia|].
        split; [auto|]. split; [auto|]. split; [auto|].
        etransitivity; [exact E'|]. symmetry. etransitivity; [exact Ec|]. symmetry.
        unfold b3. apply entries_put; [lia|rewrite Bc; bg].
  Qed.

  (** ** the root of a heap is minimal *)
  Lemma root_min : forall n (b : cells), heap_ok n b -> forall j, 0 <= j < n -> prio_at b 0 <= prio_at b j.
  Proof.
    intros n b H.
    assert (A : forall k : nat, forall j, 0 <= j < n -> j <= Z.of_nat k -> prio_at b 0 <= prio_at b j).
    { induction k; intros j Hj Hk.
      - assert (j = 0) by lia. subst. lia.
      - destruct (Z.eq_dec j 0) as [->|N]; [lia|].
        pose proof (H j ltac:(lia)). assert (0 <= (j - 1) / 2 < j) by dlia.
        specialize (IHk ((j - 1) / 2) ltac:(lia) ltac:(lia)). lia. }
    intros j Hj. apply (A (Z.to_nat j)); lia.
  Qed.

  Lemma entry_cell : forall n (b : cells) e, filled n b -> In e (entries b) ->
    exists j, 0 <= j < n /\ bget b j = Some e.
  Proof.
    intros n b e F H. destruct (in_entries_bget b e H) as (j & Hj & G).
    exists j. split; auto. destruct (Z.lt_ge_cases j n); [lia|].
    rewrite (proj2 (F j ltac:(lia))) in G by lia. discriminate.
  Qed.

  Lemma root_is_min : forall m (b : cells) n p v, pq_inv m (b, n) -> bget b 0 = Some (p, v) ->
    is_min (p, v) (entries b).
  Proof.
    intros m b n p v (Hl & Hn & Fl & Ho) G. split.
    - eapply bget_in_entries; eauto.
    - intros e' He'. destruct (entry_cell n b e' Fl He') as (j & Hj & Gj).
      pose proof (root_min n b Ho j Hj) as R. unfold prio_at in R. rewrite G, Gj in R. exact R.
  Qed.

  Lemma size_is_length : forall m (s : pq), pq_inv m s -> Z.of_nat (List.length (contents s)) = snd s.
  Proof.
    intros m [b n] (Hl & Hn & Fl & Ho). unfold contents; simpl. unfold ModelHeap.entry in *.
    apply entries_length_filled; auto; lia.
  Qed.

  (** ** pop *)
  Lemma pop_spec : forall m (s : pq), pq_inv m s -> 0 < snd s ->
    exists p v s', pq_pop s = Ok (p, v, s') /\ pq_inv m s' /\ snd s' = snd s - 1 /\
      is_min (p, v) (contents s) /\ Permutation (contents s) ((p, v) :: contents s').
  Proof.
    intros m [b n] Inv Hpos. pose proof Inv as (Hl & Hn & Fl & Ho). simpl in Hpos.
    unfold pq_pop. unfold ModelHeap.entry in *.
    destruct (Z.leb_spec n 0); try lia.
    destruct (bget b 0) as [[rp rv]|] eqn:G0.
    2:{ exfalso. apply (proj1 (Fl 0 ltac:(lia))); auto; lia. }
    pose proof (root_is_min m b n rp rv Inv G0) as Hmin.
    rewrite (take_some_ok b 0 (rp, rv)); [|lia|auto]. cbn [bind].
    set (b1 := upd b 0 None).
    assert (B1 : forall j, bget b1 j = if j =? 0 then None else bget b j) by (intros; unfold b1; bg).
    assert (E1 : Permutation (entries b) ((rp, rv) :: entries b1)) by (apply entries_take; [lia|auto]).
    destruct (Z.eqb_spec (n - 1) 0) as [Hz|Hnz].
    - exists rp, rv, (b1, n - 1). split; [reflexivity|]. split.
      + unfold pq_inv; unfold ModelHeap.entry in *. split; [unfold b1; rewrite len_upd; lia|]. split; [lia|]. split.
        * intros j Hj. rewrite B1. destruct (Z.eqb_spec j 0); [split; [lia|auto]|].
          split; [lia|]. intros. apply Fl; lia.
        * intros j Hj. lia.
      + split; [reflexivity|]. split; [exact Hmin|exact E1].
    - set (ns := n - 1) in *.
      destruct (bget b ns) as [[dp dv]|] eqn:Gd.
      2:{ exfalso. apply (proj1 (Fl ns ltac:(lia))); auto; lia. }
      rewrite (take_some_ok b1 ns (dp, dv)); [|unfold b1; rewrite len_upd; lia|rewrite B1; bg]. cbn [bind].
      set (b2 := upd b1 ns None).
      assert (L2 : len b2 = len b) by (unfold b2, b1; now rewrite !len_upd).
      assert (B2 : forall j, bget b2 j = if j =? ns then None else if j =? 0 then None else bget b j).
      { intros j. unfold b2. rewrite bget_upd by (unfold b1; rewrite len_upd; lia). now rewrite B1. }
      assert (E2 : Permutation (entries b1) ((dp, dv) :: entries b2)).
      { apply entries_take; [unfold b1; rewrite len_upd; lia|rewrite B1; bg]. }
      assert (P2 : forall j, j <> 0 -> j <> ns -> vprio b2 0 dp j = prio_at b j).
      { intros j H0 H1. unfold vprio, prio_at. rewrite B2. destruct (Z.eqb_spec j 0); [lia|].
        destruct (Z.eqb_spec j ns); [lia|auto]. }
      destruct (sift_down_spec (Z.to_nat ns) b2 ns dp 0) as (b' & i' & Hs & L' & Hi' & Hh' & Ho' & E').
      + lia.
      + lia.
      + lia.
      + intros j Hj. rewrite B2. destruct (Z.eqb_spec j ns); [split; [lia|auto]|].
        destruct (Z.eqb_spec j 0); [split; [lia|auto]|]. split; [intros; apply Fl; lia|].
        intros [Hge|]; [|lia]. apply Fl; lia.
      + intros j Hj Np. assert (0 <= (j - 1) / 2 < j) by dlia. rewrite !P2 by lia. apply Ho. lia.
      + intros; lia.
      + unfold ModelHeap.entry in *. rewrite Hs. cbn [bind].
        assert (Gi' : bget b' i' = None) by (apply (proj2 (Hh' i' ltac:(lia))); auto).
        rewrite (put_ok b' i' (dp, dv)); [|lia|auto]. cbn [bind].
        set (b3 := upd b' i' (Some (dp, dv))).
        assert (B3 : forall j, bget b3 j = if j =? i' then Some (dp, dv) else bget b' j) by (intros; unfold b3; bg).
        assert (P3 : forall j, prio_at b3 j = vprio b' i' dp j).
        { intros j. unfold vprio, prio_at. rewrite B3. destruct (Z.eqb_spec j i'); auto. }
        exists rp, rv, (b3, ns). split; [reflexivity|]. split.
        * unfold pq_inv; unfold ModelHeap.entry in *. split; [unfold b3; rewrite len_upd; lia|]. split; [lia|]. split.
          { intros j Hj. rewrite B3. destruct (Z.eqb_spec j i'); [split; [discriminate|lia]|].
            split; intros; apply Hh'; auto. }
          { intros j Hj. rewrite !P3. apply Ho'; auto. }
        * split; [reflexivity|]. split; [exact Hmin|]. unfold contents; simpl fst.
          etransitivity; [exact E1|]. constructor. etransitivity; [exact E2|]. symmetry.
          etransitivity; [unfold b3; apply entries_put; [lia|auto]|]. constructor. exact E'.
  Qed.

  Lemma pop_empty : forall (s : pq), snd s <= 0 -> pq_pop s = Panic msg_pq_pop.
  Proof. intros [b n] H. simpl in H. unfold pq_pop. destruct (Z.leb_spec n 0); auto; lia. Qed.

  (** ** peek *)
  Lemma peek_spec : forall m (s : pq), pq_inv m s -> 0 < snd s ->
    exists p v, pq_peek s = Ok (p, v, s) /\ is_min (p, v) (contents s).
  Proof.
    intros m [b n] Inv Hpos. pose proof Inv as (Hl & Hn & Fl & Ho). simpl in Hpos.
    unfold pq_peek. unfold ModelHeap.entry in *.
    destruct (Z.leb_spec n 0); try lia.
    destruct (bget b 0) as [[rp rv]|] eqn:G0.
    2:{ exfalso. apply (proj1 (Fl 0 ltac:(lia))); auto; lia. }
    rewrite a_get_ok by lia. cbn [bind]. rewrite G0. cbn [bind unwrap].
    exists rp, rv. split; [reflexivity|]. eapply root_is_min; eauto.
  Qed.

  Lemma peek_empty : forall (s : pq), snd s <= 0 -> pq_peek s = Panic msg_pq_peek.
  Proof. intros [b n] H. simpl in H. unfold pq_peek. destruct (Z.leb_spec n 0); auto; lia. Qed.

  (** ** the iterator protocol *)
  Lemma next_empty : forall m (s : pq), pq_inv m s -> snd s = 0 -> pq_next s = Ok None.
  Proof.
    intros m [b n] (Hl & Hn & Fl & Ho) H. simpl in H. subst n. unfold pq_next. simpl.
    rewrite all_nothing_ok; auto. intros j Hj. apply Fl; lia.
  Qed.

  Lemma empty_inv : forall m, 0 <= m -> pq_inv m (@empty_pq T m) /\ contents (@empty_pq T m) = [].
  Proof.
    intros m Hm. unfold empty_pq, pq_inv, contents; unfold ModelHeap.entry in *. simpl fst. split.
    - split; [unfold len; rewrite repeat_length; lia|]. split; [lia|]. split.
      + intros j Hj. rewrite bget_repeat_none. split; [lia|auto].
      + intros j Hj. lia.
    - apply entries_all_nothing. intros. apply bget_repeat_none.
  Qed.

  (** ** scripts: every step is allowed by the multiset specification *)
  Lemma step_refines : forall m (s : pq) o, pq_inv m s ->
    match pq_step m s o with
    | (ob, Some s') => pq_spec_step m (contents s) o ob (Some (contents s')) /\ pq_inv m s'
    | (ob, None) => pq_spec_step m (contents s) o ob None
    end.
  Proof.
    intros m s o Inv. pose proof (size_is_length m s Inv) as Hlen.
    assert (Hsz : 0 <= snd s) by (destruct s; destruct Inv as (_ & ? & _); simpl; lia).
    destruct o; simpl.
    - destruct (Z.lt_ge_cases (snd s) m) as [Hlt|Hge].
      + destruct (push_spec m s v p Inv Hlt) as (s' & -> & Inv' & _ & E). simpl. split; auto.
        constructor; [lia|exact E].
      + rewrite push_full by lia. simpl. constructor. lia.
    - destruct (Z.lt_ge_cases 0 (snd s)) as [Hpos|Hz].
      + destruct (pop_spec m s Inv Hpos) as (p & v & s' & -> & Inv' & _ & Hm & E). simpl. split; auto.
        now constructor.
      + rewrite pop_empty by lia. simpl. constructor.
        destruct (contents s); auto. simpl in Hlen. lia.
    - destruct (Z.lt_ge_cases 0 (snd s)) as [Hpos|Hz].
      + destruct (peek_spec m s Inv Hpos) as (p & v & -> & Hm). simpl. split; auto.
        now constructor.
      + rewrite peek_empty by lia. simpl. constructor.
        destruct (contents s); auto. simpl in Hlen. lia.
    - split; auto. unfold pq_len. rewrite <- Hlen. now constructor.
    - unfold pq_next, pq_len. destruct (Z.eqb_spec (snd s) 0) as [Hz|Hnz].
      + pose proof (next_empty m s Inv Hz) as N. unfold pq_next, pq_len in N.
        destruct (Z.eqb_spec (snd s) 0); [|lia]. rewrite N. simpl. constructor.
        destruct (contents s); auto. simpl in Hlen. lia.
      + destruct (pop_spec m s Inv ltac:(lia)) as (p & v & s' & -> & Inv' & _ & Hm & E). simpl. split; auto.
        now constructor.
  Qed.

  Lemma run_refines : forall m ops (s : pq), pq_inv m s ->
    pq_spec_run m (contents s) ops (fst (pq_run m ops s)) /\
    match snd (pq_run m ops s) with Some s' => pq_inv m s' | None => True end.
  Proof.
    induction ops as [|o ops IH]; intros s Inv; simpl.
    - split; [constructor|auto].
    - pose proof (step_refines m s o Inv) as H.
      destruct (pq_step m s o) as [ob [s'|]].
      + destruct H as [H Inv']. specialize (IH s' Inv').
        destruct (pq_run m ops s') as [obs fin]. simpl in *. destruct IH as [IH1 IH2].
        split; auto. econstructor; eauto.
      + simpl. split; auto. now constructor.
  Qed.
End PQProofs.
