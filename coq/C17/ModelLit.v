(** Hand-written executable model around the generated leaf functions (GenLit.v).
    No proofs here.  What is hand-written (and tied to /repo by the differential harness
    props/C17/impl_lit.py rather than by translation):
      - [to_unsigned]: hugr.std.int._to_unsigned, library code of the installed hugr
        package that IntVal.to_value calls (not part of /repo);
      - [build]: ExprBuilder as an ast.NodeTransformer, restricted to the literal fragment;
      - [check_const]: ExprChecker.visit_Constant = python_value_to_guppy_type with the
        expected type as hint, followed by check_type_against (int and nat are distinct
        types without subsumption);
      - the pipeline [compile_expr] = build, check, python_value_to_hugr, serialise. *)
From Coq Require Import ZArith Bool List.
From V.C17 Require Import ModelBase GenLit.
Import ListNotations.
Open Scope Z_scope.

(* hugr.std.int._to_unsigned(val, bits) *)
Definition to_unsigned (v bits : Z) : res Z :=
  let half_max := Z.shiftl 1 (bits - 1) in
  if (v <? - half_max) || (half_max - 1 <? v) then Raise ValueError
  else if v <? 0 then Ok (Z.shiftl 1 bits + v) else Ok v.

(* ConstInt payload (log_width, value) of a constant, as serialised into the HUGR *)
Definition payload (c : hconst) : res (Z * Z) :=
  match c with
  | IntVal v w => bind (to_unsigned v (Z.shiftl 1 w)) (fun u => Ok (w, u))
  | UnsignedIntVal v w =>
      bind (unsigned_post_init v w) (fun _ =>
        let '(w1, p1) := unsigned_payload v w in   (* JSON form, to_value *)
        let '(w2, p2) := unsigned_model v w in     (* model form, to_model *)
        if (w1 =? w2) && (p1 =? p2) then Ok (w1, p1) else Raise SerialisationsDiffer)
  end.

(* ExprBuilder (NodeTransformer): visit_UnaryOp either folds or generic_visits *)
Fixpoint build (e : lexpr) : lexpr :=
  match e with
  | LUnary op a => match fold_unaryop op a with Some c => c | None => LUnary op (build a) end
  | _ => e
  end.

(* ExprChecker.visit_Constant against expected numeric type [ty] *)
Definition check_const (ty : kind) (v : Z) : res kind :=
  bind (literal_type (kind_eqb ty KNat) v)
       (fun act => if kind_eqb act ty then Ok act else Raise (TypeMismatchError ty act)).

(* ExprSynthesizer.visit_Constant: no hint *)
Definition synth_const (v : Z) : res kind := literal_type false v.

(* a source expression in a position of expected type [ty]: the constant the checker sees *)
Definition check_expr (ty : kind) (e : lexpr) : res Z :=
  match build e with
  | LConst v => bind (check_const ty v) (fun _ => Ok v)
  | _ => Raise NotALiteral
  end.

(* ... and what the compiler writes into the HUGR for it *)
Definition compile_const (ty : kind) (v : Z) : res (Z * Z) :=
  bind (check_const ty v) (fun k => payload (literal_hugr k v)).
(* a literal in a position without type hint (`x = 5`), then used at type [ty] *)
Definition compile_synth (ty : kind) (e : lexpr) : res (Z * Z) :=
  match build e with
  | LConst v => bind (synth_const v) (fun k => if kind_eqb k ty then payload (literal_hugr k v)
                                               else Raise (TypeMismatchError ty k))
  | _ => Raise NotALiteral
  end.
Definition compile_expr (ty : kind) (e : lexpr) : res (Z * Z) :=
  match build e with
  | LConst v => compile_const ty v
  | _ => Raise NotALiteral
  end.

(* A constant that is an operand of a binary operator / comparison, an augmented assignment or an
   argument of a generic parameter is synthesised first (no hint -> its type is fixed then) and only
   later matched against a parameter type on ExprChecker.check's already-typed path ([check_typed],
   generated): a constant is typed once. *)
Definition check_operand (param : kind) (v : Z) : res kind :=
  bind (synth_const v) (fun k => check_typed k param).
Definition compile_operand (v : Z) : res hconst :=
  bind (synth_const v) (fun k => Ok (literal_hugr k v)).
Definition compile_operand_payload (v : Z) : res (Z * Z) :=
  bind (compile_operand v) payload.

(** Specification side (independent of the code). *)
Definition in_range (ty : kind) (v : Z) : Prop :=
  match ty with
  | KInt => - 2 ^ 63 <= v <= 2 ^ 63 - 1
  | KNat => 0 <= v <= 2 ^ 64 - 1
  end.
(* value denoted by a 64-bit ConstInt payload [p] read at type [ty] (HUGR: ConstInt holds the
   unsigned 64-bit pattern; signed ops read it in two's complement) *)
Definition denote (ty : kind) (p : Z) : Z :=
  match ty with
  | KNat => p
  | KInt => if p <? 2 ^ 63 then p else p - 2 ^ 64
  end.
(* value of an expression of the literal fragment in Python *)
Fixpoint py_value (e : lexpr) : option Z :=
  match e with
  | LConst v => Some v
  | LUnary USub a => option_map Z.opp (py_value a)
  | LUnary UAdd a => py_value a
  | _ => None
  end.
