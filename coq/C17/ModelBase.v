(** Hand-written base types for C17 (integer literals).  No proofs here.
    Python `int` values are [Z] (bools are excluded: the translator checks that the
    `bool()` case precedes every `int(...)` case in the `match` statements it reads). *)
From Coq Require Import ZArith Bool List.
Import ListNotations.
Open Scope Z_scope.

(** The two integer kinds of guppylang's NumericType. *)
Inductive kind := KNat | KInt.
Definition kind_eqb (a b : kind) : bool :=
  match a, b with KNat, KNat | KInt, KInt => true | _, _ => false end.

(** Errors that the literal paths can raise. *)
Inductive err :=
| IntOverflowError (signed : bool) (bits : Z) (is_underflow : bool)   (* GuppyTypeError *)
| TypeMismatchError (expected actual : kind)                            (* GuppyTypeError *)
| AssertionError                                                        (* internal *)
| ValueError                                                            (* hugr's _to_unsigned *)
| SerialisationsDiffer                                                  (* to_value vs to_model *)
| NotALiteral.                                                          (* outside the model *)

Inductive res (A : Type) : Type := Ok (a : A) | Raise (e : err).
Arguments Ok {A} a.
Arguments Raise {A} e.
Definition bind {A B} (r : res A) (f : A -> res B) : res B :=
  match r with Ok a => f a | Raise e => Raise e end.
Definition is_ok {A} (r : res A) : bool := match r with Ok _ => true | Raise _ => false end.

(* check_type_against on the two integer kinds: distinct types, no subsumption between them *)
Definition check_type_against (actual ty : kind) : res kind :=
  if kind_eqb actual ty then Ok ty else Raise (TypeMismatchError ty actual).

(** HUGR constant values built by python_value_to_hugr for integers. *)
Inductive hconst :=
| IntVal (v width : Z)            (* hugr.std.int.IntVal(v, width=...) *)
| UnsignedIntVal (v width : Z).   (* guppylang's UnsignedIntVal(v, width=...) *)

(** The fragment of Python expression syntax that matters for literals.  A literal token
    of the Python grammar is a non-negative [LConst]; `-5` is [LUnary USub (LConst 5)]. *)
Inductive unop := USub | UAdd | Invert | Not.
Inductive lexpr :=
| LConst (v : Z)
| LUnary (op : unop) (e : lexpr)
| LOther.
