(** Lemmas for C17, all about the definitions of GenLit.v regenerated from /repo. *)
From Coq Require Import ZArith List Bool Lia ZifyBool.
From V.C17 Require Import ModelBase GenLit ModelLit.
Import ListNotations.
Open Scope Z_scope.

Lemma p63 : 2 ^ 63 = 9223372036854775808. Proof. reflexivity. Qed.
Lemma p64 : 2 ^ 64 = 18446744073709551616. Proof. reflexivity. Qed.

(* the closed locals of _int_bounds_check, evaluated whatever their syntactic shape *)
Lemma max_signed : ibc_MAX true = 9223372036854775807. Proof. vm_compute. reflexivity. Qed.
Lemma min_signed : ibc_MIN true = -9223372036854775808. Proof. vm_compute. reflexivity. Qed.
Lemma max_unsigned : ibc_MAX false = 18446744073709551615. Proof. vm_compute. reflexivity. Qed.
Lemma min_unsigned : ibc_MIN false = 0. Proof. vm_compute. reflexivity. Qed.
Lemma width_val : INT_WIDTH = 6. Proof. vm_compute. reflexivity. Qed.

Definition lo (signed : bool) : Z := if signed then -9223372036854775808 else 0.
Definition hi (signed : bool) : Z := if signed then 9223372036854775807 else 18446744073709551615.

Lemma lo_lt_hi : forall s, lo s < hi s.
Proof. intros []; unfold lo, hi; lia. Qed.

Lemma ibc_cases : forall v signed,
  (lo signed <= v <= hi signed /\ int_bounds_check v signed = Ok tt) \/
  (v < lo signed /\ exists b, int_bounds_check v signed = Raise (IntOverflowError signed b true)) \/
  (hi signed < v /\ exists b, int_bounds_check v signed = Raise (IntOverflowError signed b false)).
Proof.
  intros v signed. unfold int_bounds_check.
  assert (Hmin : ibc_MIN signed = lo signed) by (destruct signed; [exact min_signed | exact min_unsigned]).
  assert (Hmax : ibc_MAX signed = hi signed) by (destruct signed; [exact max_signed | exact max_unsigned]).
  rewrite Hmin, Hmax.
  assert (Hlh : lo signed < hi signed) by (destruct signed; unfold lo, hi; lia).
  (* whatever comparison shape the source uses for the range test *)
  repeat match goal with
         | |- context [Z.ltb ?a ?b] => destruct (Z.ltb_spec a b)
         | |- context [Z.leb ?a ?b] => destruct (Z.leb_spec a b)
         end; cbn [orb andb negb];
    first [ exfalso; lia
          | left; split; [lia | reflexivity]
          | right; left; split; [lia | eexists; reflexivity]
          | right; right; split; [lia | eexists; reflexivity] ].
Qed.

Lemma ibc_ok_iff : forall v signed, int_bounds_check v signed = Ok tt <-> lo signed <= v <= hi signed.
Proof.
  intros v s. destruct (ibc_cases v s) as [[H E] | [[H [b E]] | [H [b E]]]]; rewrite E; split; intros; try lia; try discriminate; reflexivity.
Qed.

Lemma ibc_underflow_iff : forall v signed,
  (exists b, int_bounds_check v signed = Raise (IntOverflowError signed b true)) <-> v < lo signed.
Proof.
  intros v s. pose proof (lo_lt_hi s) as LH.
  destruct (ibc_cases v s) as [[H E] | [[H [b E]] | [H [b E]]]]; rewrite E; split; intros X;
    try (destruct X as [b' X]; discriminate X); try lia; try (eexists; reflexivity).
Qed.

Lemma ibc_overflow_iff : forall v signed,
  (exists b, int_bounds_check v signed = Raise (IntOverflowError signed b false)) <-> hi signed < v.
Proof.
  intros v s. pose proof (lo_lt_hi s) as LH.
  destruct (ibc_cases v s) as [[H E] | [[H [b E]] | [H [b E]]]]; rewrite E; split; intros X;
    try (destruct X as [b' X]; discriminate X); try lia; try (eexists; reflexivity).
Qed.

Lemma ibc_total : forall v signed, int_bounds_check v signed = Ok tt \/
  exists b u, int_bounds_check v signed = Raise (IntOverflowError signed b u).
Proof.
  intros v s. destruct (ibc_cases v s) as [[H E] | [[H [b E]] | [H [b E]]]]; rewrite E; eauto.
Qed.

(* ---- literal_type ---- *)
Definition lt_spec (hint : bool) (v : Z) : option kind :=
  if hint && (0 <=? v)
  then (if v <=? 18446744073709551615 then Some KNat else None)
  else (if (-9223372036854775808 <=? v) && (v <=? 9223372036854775807) then Some KInt else None).

Lemma literal_type_spec : forall hint v,
  match lt_spec hint v with
  | Some k => literal_type hint v = Ok k
  | None => exists s b u, literal_type hint v = Raise (IntOverflowError s b u)
  end.
Proof.
  intros hint v. unfold lt_spec, literal_type.
  destruct (hint && (0 <=? v)) eqn:G.
  - destruct (ibc_cases v false) as [[H E] | [[H [b E]] | [H [b E]]]]; unfold lo, hi in H; rewrite E; cbn [bind];
      destruct (v <=? 18446744073709551615) eqn:L; try lia; try reflexivity; try (do 3 eexists; reflexivity).
  - destruct (ibc_cases v true) as [[H E] | [[H [b E]] | [H [b E]]]]; unfold lo, hi in H; rewrite E; cbn [bind];
      destruct (-9223372036854775808 <=? v) eqn:L1; destruct (v <=? 9223372036854775807) eqn:L2; cbn [andb];
      try lia; try reflexivity; try (do 3 eexists; reflexivity).
Qed.

Lemma literal_type_nat_iff : forall hint v,
  literal_type hint v = Ok KNat <-> hint = true /\ 0 <= v <= 18446744073709551615.
Proof.
  intros hint v. pose proof (literal_type_spec hint v) as S. unfold lt_spec in S.
  revert S.
  destruct hint; cbn [andb];
    destruct (0 <=? v) eqn:A; destruct (v <=? 18446744073709551615) eqn:B;
    destruct (-9223372036854775808 <=? v) eqn:C; destruct (v <=? 9223372036854775807) eqn:D; cbn [andb]; intros S;
    match type of S with ex _ => destruct S as [s0 [b0 [u0 S]]] | _ => idtac end; rewrite S; split; intros X; try reflexivity; try discriminate X; try lia;
    try (destruct X as [X _]; discriminate X); try (split; [reflexivity | lia]).
Qed.

Lemma literal_type_int_iff : forall hint v,
  literal_type hint v = Ok KInt <-> (hint = false \/ v < 0) /\ -9223372036854775808 <= v <= 9223372036854775807.
Proof.
  intros hint v. pose proof (literal_type_spec hint v) as S. unfold lt_spec in S.
  revert S.
  destruct hint; cbn [andb];
    destruct (0 <=? v) eqn:A; destruct (v <=? 18446744073709551615) eqn:B;
    destruct (-9223372036854775808 <=? v) eqn:C; destruct (v <=? 9223372036854775807) eqn:D; cbn [andb]; intros S;
    match type of S with ex _ => destruct S as [s0 [b0 [u0 S]]] | _ => idtac end; rewrite S; split; intros X; try reflexivity; try discriminate X; try lia;
    try (destruct X as [[X|X] Y]; try discriminate X; lia);
    try (split; [first [left; reflexivity | right; lia] | lia]).
Qed.

Lemma literal_type_total : forall hint v, exists r, literal_type hint v = r /\
  match r with Ok _ => True | Raise (IntOverflowError _ _ _) => True | Raise _ => False end.
Proof.
  intros hint v. eexists; split; [reflexivity|]. unfold literal_type.
  destruct (hint && (Z.leb 0 v)).
  - destruct (ibc_total v false) as [E | [b [u E]]]; rewrite E; exact I.
  - destruct (ibc_total v true) as [E | [b [u E]]]; rewrite E; exact I.
Qed.

(* ---- check_const: acceptance at a type ---- *)
Definition in_range_lit (ty : kind) (v : Z) : Prop :=
  match ty with
  | KInt => -9223372036854775808 <= v <= 9223372036854775807
  | KNat => 0 <= v <= 18446744073709551615
  end.

Lemma in_range_lit_eq : forall ty v, in_range ty v <-> in_range_lit ty v.
Proof. intros [] v; unfold in_range, in_range_lit; rewrite ?p63, ?p64; lia. Qed.

Lemma check_const_ok_iff : forall ty v, check_const ty v = Ok ty <-> in_range_lit ty v.
Proof.
  intros ty v. unfold check_const.
  destruct (literal_type (kind_eqb ty KNat) v) as [k|e] eqn:E; cbn [bind].
  - destruct k.
    + apply literal_type_nat_iff in E. destruct E as [Hh Hr]. destruct ty; cbn in Hh; try discriminate.
      cbn. split; intros; [exact Hr | reflexivity].
    + apply literal_type_int_iff in E. destruct E as [Hh Hr]. destruct ty; cbn.
      * split; intros X; [discriminate | destruct Hh as [Hh|Hh]; [cbn in Hh; discriminate | lia]].
      * split; intros; [exact Hr | reflexivity].
  - split; intros X; [discriminate|]. exfalso. destruct ty; cbn [kind_eqb] in E; cbn in X.
    + assert (literal_type true v = Ok KNat) as Y by (apply literal_type_nat_iff; split; [reflexivity|lia]). congruence.
    + assert (literal_type false v = Ok KInt) as Y by (apply literal_type_int_iff; split; [left; reflexivity|lia]). congruence.
Qed.

Lemma check_const_ok_only_ty : forall ty v k, check_const ty v = Ok k -> k = ty.
Proof.
  intros ty v k. unfold check_const. destruct (literal_type _ v) as [a|e]; cbn [bind]; [|discriminate].
  destruct (kind_eqb a ty) eqn:E; [|discriminate]. intros X; inversion X; subst. destruct k, ty; cbn in E; congruence.
Qed.

(* which error a rejected constant gets *)
Lemma check_const_reject_kind : forall ty v, ~ in_range_lit ty v ->
  match ty with
  | KInt => exists b, check_const KInt v = Raise (IntOverflowError true b (v <? 0))
  | KNat => if v <? 0
            then (if v <? -9223372036854775808
                  then exists b, check_const KNat v = Raise (IntOverflowError true b true)
                  else check_const KNat v = Raise (TypeMismatchError KNat KInt))
            else exists b, check_const KNat v = Raise (IntOverflowError false b false)
  end.
Proof.
  intros ty v H. destruct ty; unfold in_range_lit in H.
  - unfold check_const, literal_type. cbn [kind_eqb]. destruct (Z.leb 0 v) eqn:G; cbn [andb].
    + destruct (Z.ltb v 0) eqn:L; [lia|].
      destruct (ibc_cases v false) as [[H1 E] | [[H1 [b E]] | [H1 [b E]]]]; unfold lo, hi in H1; try lia.
      rewrite E; cbn [bind]. eexists; reflexivity.
    + destruct (Z.ltb v 0) eqn:L; [|lia].
      destruct (ibc_cases v true) as [[H1 E] | [[H1 [b E]] | [H1 [b E]]]]; unfold lo, hi in H1; try lia.
      * rewrite E; cbn. destruct (Z.ltb v (-9223372036854775808)) eqn:L2; [lia | reflexivity].
      * rewrite E; cbn. destruct (Z.ltb v (-9223372036854775808)) eqn:L2; [eexists; reflexivity | lia].
  - unfold check_const, literal_type. cbn [kind_eqb andb].
    destruct (ibc_cases v true) as [[H1 E] | [[H1 [b E]] | [H1 [b E]]]]; unfold lo, hi in H1; try lia;
      rewrite E; cbn [bind]; destruct (Z.ltb v 0) eqn:L; try lia; eexists; reflexivity.
Qed.

(* ---- builder folding ---- *)
Lemma fold_usub_const : forall v, fold_unaryop USub (LConst v) = Some (LConst (- v)).
Proof. intros v. reflexivity. Qed.

Lemma fold_only_usub_const : forall op e c, fold_unaryop op e = Some c -> exists v, op = USub /\ e = LConst v /\ c = LConst (- v).
Proof.
  intros op e c H. destruct op, e; cbn in H; try discriminate. inversion H. eexists; repeat split.
Qed.

Lemma build_neg_literal : forall v, build (LUnary USub (LConst v)) = LConst (- v).
Proof. intros v. cbn [build]. rewrite fold_usub_const. reflexivity. Qed.

Lemma build_const : forall v, build (LConst v) = LConst v.
Proof. reflexivity. Qed.

(* ---- payload ---- *)
Lemma to_unsigned_64 : forall v, -9223372036854775808 <= v <= 9223372036854775807 ->
  to_unsigned v 64 = Ok (if v <? 0 then 18446744073709551616 + v else v).
Proof.
  intros v H. unfold to_unsigned.
  change (Z.shiftl 1 (64 - 1)) with 9223372036854775808. change (Z.shiftl 1 64) with 18446744073709551616.
  cbv zeta.
  repeat match goal with |- context [Z.ltb ?a ?b] => destruct (Z.ltb_spec a b) end; cbn [orb]; try lia; reflexivity.
Qed.

Lemma shift_width : Z.shiftl 1 INT_WIDTH = 64. Proof. vm_compute. reflexivity. Qed.

Lemma payload_int : forall v, in_range_lit KInt v ->
  payload (literal_hugr KInt v) = Ok (6, if v <? 0 then 18446744073709551616 + v else v).
Proof.
  intros v H. unfold literal_hugr, payload. rewrite shift_width, width_val. cbn in H.
  rewrite (to_unsigned_64 v H). reflexivity.
Qed.

Lemma payload_nat : forall v, in_range_lit KNat v -> payload (literal_hugr KNat v) = Ok (6, v).
Proof.
  intros v H. unfold literal_hugr, payload, unsigned_post_init, unsigned_payload, unsigned_model. rewrite width_val. cbn in H.
  destruct (Z.leb 0 v) eqn:E; [| lia]. cbn [bind]. rewrite !Z.eqb_refl. reflexivity.
Qed.

Lemma compile_const_spec : forall ty v, in_range_lit ty v ->
  exists p, compile_const ty v = Ok (6, p) /\ 0 <= p <= 18446744073709551615 /\ denote ty p = v /\ p = v mod 18446744073709551616.
Proof.
  intros ty v H. unfold compile_const. rewrite (proj2 (check_const_ok_iff ty v) H). cbn [bind].
  destruct ty.
  - rewrite (payload_nat v H). exists v. cbn in H. cbn [denote]. repeat split; try lia.
    symmetry. apply Z.mod_small. lia.
  - rewrite (payload_int v H). cbn in H. destruct (Z.ltb v 0) eqn:E.
    + exists (18446744073709551616 + v). unfold denote. rewrite p63, p64.
      destruct (Z.ltb (18446744073709551616 + v) 9223372036854775808) eqn:F; repeat split; try lia.
      apply Z.mod_unique_pos with (q := -1); lia.
    + exists v. unfold denote. rewrite p63, p64.
      destruct (Z.ltb v 9223372036854775808) eqn:F; repeat split; try lia.
      symmetry. apply Z.mod_small. lia.
Qed.

Lemma compile_const_reject : forall ty v, ~ in_range_lit ty v -> exists e, compile_const ty v = Raise e.
Proof.
  intros ty v H. unfold compile_const. destruct (check_const ty v) as [k|e] eqn:E; cbn [bind]; [|eauto].
  exfalso. pose proof (check_const_ok_only_ty _ _ _ E). subst. apply H. apply check_const_ok_iff. exact E.
Qed.

(* ---- a constant is typed once (operands, augmented assignment, generic arguments) ---- *)
Lemma synth_const_cases : forall v,
  (in_range_lit KInt v /\ synth_const v = Ok KInt) \/
  (~ in_range_lit KInt v /\ exists b, synth_const v = Raise (IntOverflowError true b (v <? 0))).
Proof.
  intros v. unfold synth_const.
  destruct (ibc_cases v true) as [[H E] | [[H [b E]] | [H [b E]]]]; unfold lo, hi in H;
    unfold literal_type; cbn [andb]; rewrite E; cbn [bind].
  - left. split; [cbn; lia | reflexivity].
  - right. split; [cbn; lia |]. exists b. destruct (v <? 0) eqn:L; [reflexivity | lia].
  - right. split; [cbn; lia |]. exists b. destruct (v <? 0) eqn:L; [lia | reflexivity].
Qed.

Lemma check_operand_ok : forall param v k, check_operand param v = Ok k ->
  k = KInt /\ param = KInt /\ in_range_lit KInt v.
Proof.
  intros param v k H. unfold check_operand in H.
  destruct (synth_const_cases v) as [[R E] | [R [b E]]]; rewrite E in H; cbn [bind] in H; [|discriminate].
  unfold check_typed, check_type_against in H. destruct param; cbn in H; [discriminate|]. inversion H. auto.
Qed.

Lemma check_operand_int : forall v, in_range_lit KInt v -> check_operand KInt v = Ok KInt.
Proof.
  intros v R. unfold check_operand. destruct (synth_const_cases v) as [[_ E] | [N _]]; [|contradiction].
  rewrite E. reflexivity.
Qed.

Lemma check_operand_nat : forall v, in_range_lit KInt v ->
  check_operand KNat v = Raise (TypeMismatchError KNat KInt).
Proof.
  intros v R. unfold check_operand. destruct (synth_const_cases v) as [[_ E] | [N _]]; [|contradiction].
  rewrite E. reflexivity.
Qed.

Lemma compile_operand_int : forall v, in_range_lit KInt v ->
  compile_operand v = Ok (IntVal v INT_WIDTH) /\
  compile_operand_payload v = Ok (6, if v <? 0 then 18446744073709551616 + v else v).
Proof.
  intros v R. unfold compile_operand_payload, compile_operand.
  destruct (synth_const_cases v) as [[_ E] | [N _]]; [|contradiction]. rewrite E. cbn [bind].
  split; [reflexivity | exact (payload_int v R)].
Qed.

Lemma operand_overflow : forall param v, ~ in_range_lit KInt v ->
  exists b, check_operand param v = Raise (IntOverflowError true b (v <? 0)) /\
            compile_operand v = Raise (IntOverflowError true b (v <? 0)).
Proof.
  intros param v N. unfold check_operand, compile_operand.
  destruct (synth_const_cases v) as [[R _] | [_ [b E]]]; [contradiction|]. exists b. rewrite E. split; reflexivity.
Qed.
