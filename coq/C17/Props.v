(** C17 — Integer literals are range-checked and preserved exactly.
    Every statement is about the definitions GENERATED from /repo on this run (GenLit.v:
    _int_bounds_check, the int cases of python_value_to_guppy_type and python_value_to_hugr,
    UnsignedIntVal, ExprBuilder.visit_UnaryOp) composed by the hand-written pipeline of
    ModelLit.v.  The specification side ([in_range], [denote], Python's `-v`) is written
    with 2^63 / 2^64 and Z arithmetic only. *)
From Coq Require Import ZArith List Bool Lia.
From V.C17 Require Import ModelBase GenLit ModelLit Proofs.
Open Scope Z_scope.

(* _int_bounds_check passes exactly on [-2^63, 2^63-1] (signed) / [0, 2^64-1] (unsigned);
   otherwise it raises IntOverflowError whose under/overflow flag tells the side *)
Theorem bounds_exact : forall v : Z,
  (int_bounds_check v true = Ok tt <-> - 2 ^ 63 <= v <= 2 ^ 63 - 1) /\
  (int_bounds_check v false = Ok tt <-> 0 <= v <= 2 ^ 64 - 1) /\
  (forall signed, (exists b, int_bounds_check v signed = Raise (IntOverflowError signed b true))
                   <-> v < (if signed then - 2 ^ 63 else 0)) /\
  (forall signed, (exists b, int_bounds_check v signed = Raise (IntOverflowError signed b false))
                   <-> (if signed then 2 ^ 63 - 1 else 2 ^ 64 - 1) < v).
Proof.
  intros v. rewrite p63, p64. split; [exact (ibc_ok_iff v true) | split; [exact (ibc_ok_iff v false) | split]];
    intros signed; destruct signed; first [apply ibc_underflow_iff | apply ibc_overflow_iff].
Qed.
Print Assumptions bounds_exact.

(* python_value_to_guppy_type: nat only on a nat hint with 0 <= v (and then v <= 2^64-1 is
   required); in every other case int, and then the signed range is required *)
Theorem literal_type : forall (hint_is_nat : bool) (v : Z),
  (GenLit.literal_type hint_is_nat v = Ok KNat <-> hint_is_nat = true /\ 0 <= v <= 2 ^ 64 - 1) /\
  (GenLit.literal_type hint_is_nat v = Ok KInt <-> (hint_is_nat = false \/ v < 0) /\ - 2 ^ 63 <= v <= 2 ^ 63 - 1).
Proof. intros h v. rewrite p63, p64. split; [apply literal_type_nat_iff | apply literal_type_int_iff]. Qed.
Print Assumptions literal_type.

(* the property's first sentence: a constant is accepted at int iff it lies in
   [-2^63, 2^63-1], at nat iff in [0, 2^64-1]; acceptance never changes the type *)
Theorem literal_accept_iff : forall (ty : kind) (v : Z),
  (check_const ty v = Ok ty <-> in_range ty v) /\
  (forall k, check_const ty v = Ok k -> k = ty) /\
  (~ in_range ty v -> exists e, check_const ty v = Raise e /\ compile_const ty v = Raise e).
Proof.
  intros ty v. split; [|split].
  - rewrite in_range_lit_eq. apply check_const_ok_iff.
  - apply check_const_ok_only_ty.
  - intros H. rewrite in_range_lit_eq in H. unfold compile_const.
    destruct (check_const ty v) as [k|e] eqn:E; [| exists e; split; reflexivity].
    exfalso. apply H. pose proof (check_const_ok_only_ty _ _ _ E); subst. apply check_const_ok_iff; exact E.
Qed.
Print Assumptions literal_accept_iff.

(* rejected constants get the right diagnostic: overflow/underflow of the signed range at int;
   at nat a negative value that fits int is a type mismatch (int is not nat) *)
Theorem literal_reject_kind : forall v,
  (~ in_range KInt v -> exists b, check_const KInt v = Raise (IntOverflowError true b (v <? 0))) /\
  (2 ^ 64 - 1 < v -> exists b, check_const KNat v = Raise (IntOverflowError false b false)) /\
  (- 2 ^ 63 <= v < 0 -> check_const KNat v = Raise (TypeMismatchError KNat KInt)).
Proof.
  intros v. rewrite p63, p64. repeat split; intros H.
  - rewrite in_range_lit_eq in H. exact (check_const_reject_kind KInt v H).
  - assert (~ in_range_lit KNat v) as N by (cbn; lia). pose proof (check_const_reject_kind KNat v N) as R. cbn beta iota in R.
    destruct (v <? 0) eqn:L; [lia | exact R].
  - assert (~ in_range_lit KNat v) as N by (cbn; lia). pose proof (check_const_reject_kind KNat v N) as R. cbn beta iota in R.
    destruct (v <? 0) eqn:L; [|lia]. destruct (v <? -9223372036854775808) eqn:L2; [lia | exact R].
Qed.
Print Assumptions literal_reject_kind.

(* the builder folds `-<literal>` into the constant -v, so the checker sees Python's value:
   a (non-negative) literal token n is accepted at int iff n <= 2^63-1, its negation iff
   n <= 2^63 *)
Theorem neg_fold : forall n : Z,
  build (LUnary USub (LConst n)) = LConst (- n) /\
  build (LConst n) = LConst n /\
  (0 <= n -> (check_expr KInt (LConst n) = Ok n <-> n <= 2 ^ 63 - 1) /\
             (check_expr KInt (LUnary USub (LConst n)) = Ok (- n) <-> n <= 2 ^ 63)) /\
  (forall op e c, fold_unaryop op e = Some c -> exists v, op = USub /\ e = LConst v /\ c = LConst (- v)).
Proof.
  intros n. split; [apply build_neg_literal | split; [reflexivity | split]].
  - intros Hn. unfold check_expr. rewrite build_neg_literal, build_const. rewrite p63.
    split; split; intros H.
    + destruct (check_const KInt n) as [k|e] eqn:E; cbn [bind] in H; [|discriminate].
      pose proof (check_const_ok_only_ty _ _ _ E); subst. apply check_const_ok_iff in E. cbn in E. lia.
    + rewrite (proj2 (check_const_ok_iff KInt n)); [reflexivity | cbn; lia].
    + destruct (check_const KInt (- n)) as [k|e] eqn:E; cbn [bind] in H; [|discriminate].
      pose proof (check_const_ok_only_ty _ _ _ E); subst. apply check_const_ok_iff in E. cbn in E. lia.
    + rewrite (proj2 (check_const_ok_iff KInt (- n))); [reflexivity | cbn; lia].
  - apply fold_only_usub_const.
Qed.
Print Assumptions neg_fold.

Example neg_fold_boundary :
  check_expr KInt (LUnary USub (LConst 9223372036854775808)) = Ok (-9223372036854775808) /\
  is_ok (check_expr KInt (LConst 9223372036854775808)) = false /\
  check_expr KNat (LConst 18446744073709551615) = Ok 18446744073709551615 /\
  is_ok (check_expr KNat (LConst 18446744073709551616)) = false /\
  is_ok (check_expr KNat (LUnary USub (LConst 1))) = false.
Proof. vm_compute. repeat split. Qed.

(* the property's second sentence: the ConstInt written into the HUGR for an accepted
   constant has log_width 6 and a 64-bit payload that denotes exactly v at its type
   (two's complement for int), namely v mod 2^64; UnsignedIntVal's assertion never fires *)
Theorem value_preserved : forall (ty : kind) (v : Z), in_range ty v ->
  exists p, compile_const ty v = Ok (6, p) /\ 0 <= p <= 2 ^ 64 - 1 /\ denote ty p = v /\ p = v mod 2 ^ 64.
Proof. intros ty v H. rewrite p64. apply compile_const_spec. apply in_range_lit_eq. exact H. Qed.
Print Assumptions value_preserved.

Example value_preserved_nontrivial :
  compile_const KInt (-9223372036854775808) = Ok (6, 9223372036854775808) /\
  compile_const KInt (-1) = Ok (6, 18446744073709551615) /\
  compile_const KNat 18446744073709551615 = Ok (6, 18446744073709551615) /\
  compile_expr KInt (LUnary USub (LConst 7)) = Ok (6, 18446744073709551609).
Proof. vm_compute. repeat split. Qed.

(* distinct accepted constants of a type stay distinct in the HUGR *)
Theorem value_injective : forall ty v w p, in_range ty v -> in_range ty w ->
  compile_const ty v = Ok p -> compile_const ty w = Ok p -> v = w.
Proof.
  intros ty v w p Hv Hw Ev Ew.
  destruct (value_preserved ty v Hv) as [pv [E1 [_ [D1 _]]]]. destruct (value_preserved ty w Hw) as [pw [E2 [_ [D2 _]]]].
  rewrite E1 in Ev. rewrite E2 in Ew. inversion Ev; inversion Ew; subst. congruence.
Qed.
Print Assumptions value_injective.

(* A constant is typed once.  In positions where the constant is synthesised before it meets a
   parameter type (operand of a binary operator or comparison, augmented assignment, argument of
   a generic parameter) its type is int; the later match against a parameter type on
   ExprChecker.check's already-typed path (generated [check_typed]) never re-types it: it can
   only succeed at int, a negative or any other constant is never turned into a nat, and the
   HUGR constant is the signed IntVal with exactly that value. *)
Theorem typed_once : forall (param : kind) (v : Z),
  (forall k, check_operand param v = Ok k -> k = KInt /\ param = KInt /\ in_range KInt v) /\
  (in_range KInt v -> check_operand KInt v = Ok KInt /\
                      check_operand KNat v = Raise (TypeMismatchError KNat KInt) /\
                      exists w p, compile_operand v = Ok (IntVal v w) /\
                                  compile_operand_payload v = Ok (6, p) /\ denote KInt p = v) /\
  (~ in_range KInt v -> exists b, check_operand param v = Raise (IntOverflowError true b (v <? 0))).
Proof.
  intros param v. split; [|split].
  - intros k H. destruct (check_operand_ok _ _ _ H) as [A [B C]]. rewrite in_range_lit_eq. auto.
  - intros R. apply in_range_lit_eq in R. split; [apply check_operand_int; exact R|].
    split; [apply check_operand_nat; exact R|].
    destruct (compile_operand_int v R) as [E1 E2]. eexists; eexists. split; [exact E1 | split; [exact E2|]].
    cbn in R. unfold denote. rewrite p63, p64. destruct (v <? 0) eqn:L.
    + destruct (18446744073709551616 + v <? 9223372036854775808) eqn:F; lia.
    + destruct (v <? 9223372036854775808) eqn:F; lia.
  - intros N. rewrite in_range_lit_eq in N. destruct (operand_overflow param v N) as [b [E _]]. exists b. exact E.
Qed.
Print Assumptions typed_once.

Example typed_once_negative :
  check_operand KNat (-1) = Raise (TypeMismatchError KNat KInt) /\
  compile_operand_payload (-9223372036854775808) = Ok (6, 9223372036854775808) /\
  compile_operand (-3) = Ok (IntVal (-3) 6).
Proof. vm_compute. repeat split. Qed.
