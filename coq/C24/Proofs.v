(** C24 — lemmas about the GENERATED checker (GenUnitary.v). *)
From Coq Require Import ZArith List Bool String Lia.
From V.C24 Require Import ModelBase GenUnitary.
Import ListNotations.
Open Scope Z_scope.

(* ---------------------------------------------------------------- induction on nodes *)
Section NodeInd.
  Variable P : node -> Prop.
  Hypothesis Hcall : forall cf args, Forall (fun p => P (fst p)) args -> P (NCall cf args).
  Hypothesis Hex : P NExempt.
  Hypothesis Hplace : forall s idx, Forall P idx -> P (NPlace s idx).
  Hypothesis Hassign : forall ts v, Forall P ts -> (forall x, v = Some x -> P x) -> P (NAssign ts v).
  Hypothesis Hgen : forall cs, Forall P cs -> P (NGeneric cs).

  Fixpoint node_ind' (n : node) : P n :=
    match n with
    | NCall cf args => Hcall cf args
        ((fix go (l : list (node * bool)) : Forall (fun p => P (fst p)) l :=
            match l with [] => Forall_nil _ | p :: r => Forall_cons p (node_ind' (fst p)) (go r) end) args)
    | NExempt => Hex
    | NPlace s idx => Hplace s idx
        ((fix go (l : list node) : Forall P l :=
            match l with [] => Forall_nil _ | a :: r => Forall_cons a (node_ind' a) (go r) end) idx)
    | NAssign ts v => Hassign ts v
        ((fix go (l : list node) : Forall P l :=
            match l with [] => Forall_nil _ | a :: r => Forall_cons a (node_ind' a) (go r) end) ts)
        (match v as v0 return forall x, v0 = Some x -> P x with
         | Some y => fun x E => match E in _ = s return match s with Some z => P z | None => True end with eq_refl => node_ind' y end
         | None => fun x E => match E in _ = s return match s with Some z => P z | None => True end with eq_refl => I end
         end)
    | NGeneric cs => Hgen cs
        ((fix go (l : list node) : Forall P l :=
            match l with [] => Forall_nil _ | a :: r => Forall_cons a (node_ind' a) (go r) end) cs)
    end.
End NodeInd.

(* ---------------------------------------------------------------- the flag lattice *)
Definition subsetb (a b : Z) : bool :=
  forallb (fun i => implb (Z.testbit a i) (Z.testbit b i)) [0; 1; 2].

Lemma lattice_range : forall a, In a lattice <-> 0 <= a < 8.
Proof. intro a; unfold lattice; simpl; split; [intros H; repeat (destruct H as [<- | H]; [lia|]); contradiction | lia]. Qed.

Lemma testbit_high : forall a i, 0 <= a < 8 -> 3 <= i -> Z.testbit a i = false.
Proof.
  intros a i Ha Hi. destruct (Z.eq_dec a 0) as [->|]. apply Z.testbit_0_l.
  apply Z.bits_above_log2; try lia.
  assert (Z.log2 a < 3) by (apply Z.log2_lt_pow2; lia). lia.
Qed.

Lemma subsetb_spec : forall a b, 0 <= a < 8 -> (subsetb a b = true <-> subset a b).
Proof.
  intros a b Ha. unfold subsetb, subset. rewrite forallb_forall. split.
  - intros H i Hi T. destruct (Z_lt_dec i 3).
    + assert (In i [0;1;2]) by (simpl; lia). specialize (H i H0). rewrite T in H. exact H.
    + rewrite testbit_high in T by lia. discriminate.
  - intros H i Hin. destruct (Z.testbit a i) eqn:E; [|reflexivity]. simpl.
    apply H; [simpl in Hin; lia | exact E].
Qed.

Lemma flag_in_subset_fin :
  forallb (fun a => forallb (fun b => Bool.eqb (flag_in a b) (subsetb a b)) lattice) lattice = true.
Proof. vm_compute. reflexivity. Qed.

Lemma flag_in_subset : forall a b, In a lattice -> In b lattice -> (flag_in a b = true <-> subset a b).
Proof.
  intros a b Ha Hb. pose proof flag_in_subset_fin as F. rewrite forallb_forall in F.
  specialize (F a Ha). rewrite forallb_forall in F. specialize (F b Hb).
  apply Bool.eqb_prop in F. rewrite F. apply subsetb_spec. apply lattice_range; exact Ha.
Qed.

(* missing flags reported = fl minus cf on the lattice *)
Lemma missing_fin :
  forallb (fun a => forallb (fun b =>
     forallb (fun i => Bool.eqb (Z.testbit (Z.land a (flag_not b)) i) (Z.testbit a i && negb (Z.testbit b i))) [0;1;2;3]) lattice) lattice = true.
Proof. vm_compute. reflexivity. Qed.

(* ---------------------------------------------------------------- unfolding equations *)
Lemma orelse_none_r : forall a, orelse a None = a.
Proof. destruct a; reflexivity. Qed.

Lemma orelse_none : forall a b, orelse a b = None <-> a = None /\ b = None.
Proof. destruct a; simpl; intuition congruence. Qed.

Lemma go_list_eq : forall fl l,
  (fix go (l : list node) {struct l} : option err := match l with [] => None | a :: r => orelse (visit fl a) (go r) end) l
  = visit_list fl l.
Proof. induction l; simpl; [reflexivity | now rewrite IHl]. Qed.

Definition anyq (args : list (node * bool)) : bool := existsb (fun q => q) (map snd args).

Lemma visit_call_eq : forall fl cf args,
  visit fl (NCall cf args) =
  orelse (visit_list fl (map fst args)) (check_call fl cf (negb (anyq args))).
Proof.
  intros fl cf args. cbn [visit].
  set (go := fix go (l : list (node * bool)) (classical : bool) {struct l} : option err * bool :=
                  match l with
                  | [] => (None, classical)
                  | p :: r => match visit fl (fst p) with
                              | Some e => (Some e, classical)
                              | None => go r (if snd p then false else classical)
                              end
                  end).
  assert (G : forall l c, fst (go l c) = visit_list fl (map fst l) /\
                          (visit_list fl (map fst l) = None -> snd (go l c) = c && negb (anyq l))).
  { induction l as [|p r IH]; intro c; simpl.
    - split; [reflexivity | intros _; unfold anyq; simpl; now rewrite andb_true_r].
    - destruct (visit fl (fst p)) eqn:E; simpl.
      + split; [reflexivity | discriminate].
      + destruct (IH (if snd p then false else c)) as [A B]. split; [exact A|].
        intro N. rewrite (B N). unfold anyq. simpl. destruct (snd p); simpl; [now rewrite andb_false_r | reflexivity]. }
  destruct (G args true) as [A B]. rewrite A.
  destruct (visit_list fl (map fst args)) eqn:E; simpl; [reflexivity|].
  rewrite (B eq_refl). reflexivity.
Qed.

Lemma visit_place_eq : forall fl s idx,
  visit fl (NPlace s idx) = if flag_in F_Dagger fl && s then Some EDaggerSubscript else visit_list fl idx.
Proof. intros. cbn [visit]. now rewrite go_list_eq. Qed.

Lemma visit_assign_eq : forall fl ts v,
  visit fl (NAssign ts v) =
  if flag_in F_Dagger fl then Some EDaggerAssign
  else orelse (match v with Some x => visit fl x | None => None end) (visit_list fl ts).
Proof. intros. cbn [visit]. rewrite go_list_eq, orelse_none_r. reflexivity. Qed.

Lemma visit_generic_eq : forall fl cs, visit fl (NGeneric cs) = visit_list fl cs.
Proof. intros. cbn [visit]. now rewrite go_list_eq. Qed.

Lemma visit_list_none : forall fl l, visit_list fl l = None <-> Forall (fun n => visit fl n = None) l.
Proof.
  induction l; simpl.
  - split; [constructor | reflexivity].
  - rewrite orelse_none, IHl. split; [intros [A B]; now constructor | intros H; inversion H; auto].
Qed.

Lemma visit_list_app : forall fl a b, visit_list fl (a ++ b) = orelse (visit_list fl a) (visit_list fl b).
Proof. induction a; simpl; intros; [reflexivity | rewrite IHa; destruct (visit fl a); reflexivity]. Qed.

(* ---------------------------------------------------------------- spec-side unfoldings *)
Lemma calls_go : forall l,
  (fix go (l : list node) : list callocc := match l with [] => [] | a :: r => calls a ++ go r end) l = flat_map calls l.
Proof. induction l; simpl; [reflexivity | now rewrite IHl]. Qed.

Lemma calls_go_args : forall l,
  (fix go (l : list (node * bool)) : list callocc := match l with [] => [] | p :: r => calls (fst p) ++ go r end) l
  = flat_map calls (map fst l).
Proof. induction l; simpl; [reflexivity | now rewrite IHl]. Qed.

Lemma has_go : forall (f : node -> bool) l,
  (fix go (l : list node) := match l with [] => false | a :: r => f a || go r end) l = existsb f l.
Proof. induction l; simpl; [reflexivity | now rewrite IHl]. Qed.

Lemma has_go_args : forall (f : node -> bool) l,
  (fix go (l : list (node * bool)) := match l with [] => false | p :: r => f (fst p) || go r end) l = existsb f (map fst l).
Proof. induction l; simpl; [reflexivity | now rewrite IHl]. Qed.

(** the property for one node, written on the specification side only *)
Definition node_ok (fl : Z) (n : node) : Prop :=
  (forall c, In c (calls n) -> call_ok fl c) /\
  (subset F_Dagger fl -> has_assign n = false /\ has_subscript n = false).

Lemma check_call_none : forall fl cf qs, In fl lattice -> In cf lattice ->
  (check_call fl cf (negb (existsb (fun q => q) qs)) = None <-> call_ok fl (cf, qs)).
Proof.
  intros fl cf qs Hf Hc. unfold check_call, call_ok. simpl.
  pose proof (flag_in_subset fl cf Hf Hc) as S.
  destruct (existsb (fun q => q) qs); simpl.
  - destruct (flag_in fl cf) eqn:E; simpl.
    + split; [intros _; right; apply S; reflexivity | reflexivity].
    + split; [discriminate | intros [H|H]; [discriminate | apply S in H; discriminate]].
  - split; [intros _; now left | reflexivity].
Qed.

Lemma dagger_in_lattice : In F_Dagger lattice.
Proof. vm_compute. tauto. Qed.

Lemma existsb_false_forall : forall (A : Type) (f : A -> bool) l, existsb f l = false <-> Forall (fun x => f x = false) l.
Proof.
  induction l; simpl; [split; [constructor|reflexivity]|].
  rewrite orb_false_iff, IHl. split; [intros [? ?]; now constructor | intros H; inversion H; auto].
Qed.

Lemma Forall_node_ok_split : forall fl l,
  Forall (node_ok fl) l <->
  (forall c, In c (flat_map calls l) -> call_ok fl c) /\
  (subset F_Dagger fl -> existsb has_assign l = false /\ existsb has_subscript l = false).
Proof.
  intros fl l. induction l as [|a r IH]; simpl.
  - split; [intros _; split; [contradiction | auto] | constructor].
  - split.
    + intros H. inversion H as [|? ? [A1 A2] R]; subst. apply IH in R. destruct R as [R1 R2]. split.
      * intros c Hc. apply in_app_or in Hc. destruct Hc; auto.
      * intros D. destruct (A2 D) as [-> ->]. destruct (R2 D) as [-> ->]. auto.
    + intros [C D]. constructor.
      * split; [intros c Hc; apply C, in_or_app; now left|].
        intros Dg. destruct (D Dg) as [X Y]. apply orb_false_iff in X, Y. tauto.
      * apply IH. split; [intros c Hc; apply C, in_or_app; now right|].
        intros Dg. destruct (D Dg) as [X Y]. apply orb_false_iff in X, Y. tauto.
Qed.

(** main lemma: the generated visitor accepts a node iff the node satisfies the property *)
Lemma visit_none_iff : forall fl, In fl lattice -> forall n,
  Forall (fun c => In (fst c) lattice) (calls n) ->
  (visit fl n = None <-> node_ok fl n).
Proof.
  intros fl Hfl. pose proof (flag_in_subset F_Dagger fl dagger_in_lattice Hfl) as DG.
  assert (LIST : forall l, Forall (fun n => Forall (fun c => In (fst c) lattice) (calls n) -> (visit fl n = None <-> node_ok fl n)) l ->
                 Forall (fun c => In (fst c) lattice) (flat_map calls l) ->
                 (visit_list fl l = None <-> Forall (node_ok fl) l)).
  { induction l as [|a r IH]; intros HI HL; simpl.
    - split; [constructor | reflexivity].
    - simpl in HL. apply Forall_app in HL. destruct HL as [HLa HLr]. inversion HI; subst.
      rewrite orelse_none, (H1 HLa), (IH H2 HLr). split; [intros [? ?]; now constructor | intros X; inversion X; auto]. }
  induction n as [cf args IH | | s idx IH | ts v IHt IHv | cs IH] using node_ind'; intro WF.
  - (* call *)
    rewrite visit_call_eq. simpl in WF. rewrite calls_go_args in WF. inversion WF as [|? ? Hcf WF']; subst. simpl in Hcf.
    assert (IH' : Forall (fun n => Forall (fun c => In (fst c) lattice) (calls n) -> (visit fl n = None <-> node_ok fl n)) (map fst args))
      by (apply Forall_map; exact IH).
    rewrite orelse_none, (LIST _ IH' WF'), Forall_node_ok_split. unfold anyq. rewrite (check_call_none fl cf (map snd args) Hfl Hcf).
    unfold node_ok. simpl. rewrite calls_go_args, !has_go_args. split.
    + intros [[C D] K]. split; [intros c [<-|Hc]; auto | exact D].
    + intros [C D]. split; [split; [intros c Hc; apply C; now right | exact D] | apply C; now left].
  - (* exempt *) simpl. unfold node_ok. simpl. split; [intros _; split; [contradiction | auto] | reflexivity].
  - (* place *)
    rewrite visit_place_eq. simpl in WF. rewrite calls_go in WF. unfold node_ok. simpl. rewrite calls_go, !has_go.
    pose proof (LIST idx IH WF) as L. rewrite Forall_node_ok_split in L.
    destruct (flag_in F_Dagger fl) eqn:E; simpl.
    + destruct s; simpl.
      * split; [discriminate | intros [_ D]; destruct (D (proj1 DG eq_refl)) as [_ X]; discriminate].
      * rewrite L. tauto.
    + rewrite L. split.
      * intros [C D]. split; [exact C | intros Dg; apply DG in Dg; congruence].
      * intros [C D]. split; [exact C | intros Dg; apply DG in Dg; congruence].
  - (* assign *)
    rewrite visit_assign_eq. simpl in WF. rewrite calls_go in WF. apply Forall_app in WF. destruct WF as [WFt WFv].
    unfold node_ok. simpl. rewrite calls_go, has_go.
    destruct (flag_in F_Dagger fl) eqn:E.
    + split; [discriminate | intros [_ D]; destruct (D (proj1 DG eq_refl)) as [X _]; discriminate].
    + pose proof (LIST ts IHt WFt) as L. rewrite Forall_node_ok_split in L.
      assert (ND : ~ subset F_Dagger fl) by (intro Dg; apply DG in Dg; congruence).
      rewrite orelse_none, L. destruct v as [x|].
      * rewrite (IHv x eq_refl WFv). unfold node_ok. split.
        -- intros [[Cx _] [Ct _]]. split; [intros c Hc; apply in_app_or in Hc; destruct Hc; auto | intros Dg; contradiction].
        -- intros [C _]. split; split; try (intros Dg; contradiction); intros c Hc; apply C, in_or_app; auto.
      * split.
        -- intros [_ [Ct _]]. split; [intros c Hc; rewrite app_nil_r in Hc; auto | intros Dg; contradiction].
        -- intros [C _]. split; [reflexivity|]. split; [intros c Hc; apply C; rewrite app_nil_r; exact Hc | intros Dg; contradiction].
  - (* generic *)
    rewrite visit_generic_eq. simpl in WF. rewrite calls_go in WF. unfold node_ok. simpl. rewrite calls_go, !has_go.
    rewrite (LIST cs IH WF), Forall_node_ok_split. tauto.
Qed.

(* ---------------------------------------------------------------- blocks and CFGs *)
Definition wf_nodes (l : list node) : Prop := Forall (fun n => Forall (fun c => In (fst c) lattice) (calls n)) l.

Lemma visit_list_ok : forall fl l, In fl lattice -> wf_nodes l ->
  (visit_list fl l = None <-> Forall (node_ok fl) l).
Proof.
  intros fl l Hfl W. rewrite visit_list_none. unfold wf_nodes in W. rewrite !Forall_forall in *.
  split; intros H n Hn; [apply (visit_none_iff fl Hfl n (W n Hn)), H, Hn | apply (visit_none_iff fl Hfl n (W n Hn)), H, Hn].
Qed.

(** every AST-bearing field of a block is among the fields `check` visits (generated data) *)
Lemma fields_covered_fin : forallb (fun f => existsb (bbfield_eqb f) checked_bb_fields) bb_ast_fields = true.
Proof. vm_compute. reflexivity. Qed.

Lemma bbfield_eqb_eq : forall a b, bbfield_eqb a b = true -> a = b.
Proof. destruct a, b; simpl; congruence. Qed.

Lemma fields_covered : forall f, In f bb_ast_fields -> In f checked_bb_fields.
Proof.
  intros f Hf. pose proof fields_covered_fin as F. rewrite forallb_forall in F. specialize (F f Hf).
  apply existsb_exists in F. destruct F as [g [Hg E]]. apply bbfield_eqb_eq in E. now subst.
Qed.

(** and `check` visits nothing but AST-bearing fields *)
Lemma fields_only_ast_fin : forallb (fun f => existsb (bbfield_eqb f) bb_ast_fields) checked_bb_fields = true.
Proof. vm_compute. reflexivity. Qed.

Lemma fields_only_ast : forall f, In f checked_bb_fields -> In f bb_ast_fields.
Proof.
  intros f Hf. pose proof fields_only_ast_fin as F. rewrite forallb_forall in F. specialize (F f Hf).
  apply existsb_exists in F. destruct F as [g [Hg E]]. apply bbfield_eqb_eq in E. now subst.
Qed.

Definition wf_block (b : block) : Prop := wf_nodes (block_nodes bb_ast_fields b).

Lemma wf_block_checked : forall b, wf_block b -> wf_nodes (block_nodes checked_bb_fields b).
Proof.
  intros b W. unfold wf_block, wf_nodes, block_nodes in *. rewrite Forall_forall in *. intros n Hn.
  apply in_flat_map in Hn. destruct Hn as [f [Hf Hn]]. apply W, in_flat_map. exists f. split; [now apply fields_only_ast | exact Hn].
Qed.

Lemma check_block_iff : forall fl b, In fl lattice -> wf_block b ->
  (check_block fl b = None <-> forall f n, In f bb_ast_fields -> In n (field_nodes b f) -> node_ok fl n).
Proof.
  intros fl b Hfl W. unfold check_block. rewrite (visit_list_ok fl _ Hfl (wf_block_checked b W)), Forall_forall.
  unfold block_nodes. split.
  - intros H f n Hf Hn. apply H, in_flat_map. exists f. split; [now apply fields_covered | exact Hn].
  - intros H n Hn. apply in_flat_map in Hn. destruct Hn as [f [Hf Hn]]. apply (H f n); [now apply fields_only_ast | exact Hn].
Qed.

Lemma check_cfg_none : forall fl bbs, check_cfg fl bbs = None <-> Forall (fun b => check_block fl b = None) bbs.
Proof.
  induction bbs; simpl; [split; [constructor | reflexivity]|].
  rewrite orelse_none, IHbbs. split; [intros [? ?]; now constructor | intros H; inversion H; auto].
Qed.

Lemma check_cfg_iff : forall fl bbs, In fl lattice -> Forall wf_block bbs ->
  (check_cfg fl bbs = None <->
   forall b f n, In b bbs -> In f bb_ast_fields -> In n (field_nodes b f) -> node_ok fl n).
Proof.
  intros fl bbs Hfl W. rewrite check_cfg_none, Forall_forall. rewrite Forall_forall in W. split.
  - intros H b f n Hb. apply (check_block_iff fl b Hfl (W b Hb)), H, Hb.
  - intros H b Hb. apply (check_block_iff fl b Hfl (W b Hb)). intros f n. now apply H.
Qed.

(* ---------------------------------------------------------------- flag rule on argument lists *)
Lemma flag_rule_lemma : forall fl cf qs, In fl lattice -> In cf lattice ->
  (check_call fl cf (negb (existsb (fun q => q) qs)) <> None <->
   (exists q, In q qs /\ q = true) /\ ~ subset fl cf).
Proof.
  intros fl cf qs Hf Hc. rewrite (check_call_none fl cf qs Hf Hc). unfold call_ok. simpl. split.
  - intros H. split.
    + destruct (existsb (fun q => q) qs) eqn:E; [apply existsb_exists in E; destruct E as [q [I Q]]; exists q; auto | exfalso; apply H; now left].
    + intro S. apply H. now right.
  - intros [[q [I Q]] NS] [E | S]; [|contradiction].
    assert (existsb (fun q => q) qs = true) by (apply existsb_exists; exists q; auto). congruence.
Qed.

Lemma missing_lemma : forall fl cf c, In fl lattice -> In cf lattice ->
  check_call fl cf c <> None -> exists m, check_call fl cf c = Some (ECallFlags m) /\
    forall i, 0 <= i < 4 -> Z.testbit m i = Z.testbit fl i && negb (Z.testbit cf i).
Proof.
  intros fl cf c Hf Hc H. unfold check_call in *. destruct (negb c && negb (flag_in fl cf)); [|congruence].
  eexists; split; [reflexivity|]. intros i Hi.
  pose proof missing_fin as F. rewrite forallb_forall in F. specialize (F fl Hf). rewrite forallb_forall in F. specialize (F cf Hc).
  rewrite forallb_forall in F. assert (In i [0;1;2;3]) by (simpl; lia). apply F in H0. now apply Bool.eqb_prop in H0.
Qed.

(* ---------------------------------------------------------------- dagger pre-check *)
Lemma precheck_stmts_iff : forall l, precheck_stmts l <> None <-> exists p, In p l /\ (fst p = true \/ snd p = true).
Proof.
  induction l as [|p r IH]; simpl.
  - split; [congruence | intros [p [[] _]]].
  - destruct (fst p) eqn:A; [split; [intros _; exists p; auto | congruence]|].
    destruct (snd p) eqn:B; [split; [intros _; exists p; auto | congruence]|].
    rewrite IH. split; [intros [q [I Q]]; exists q; auto | intros [q [[<-|I] Q]]; [destruct Q; congruence | exists q; auto]].
Qed.

(* ---------------------------------------------------------------- tables *)
Fixpoint lookup (k : string) (t : list (string * behaviour)) : option behaviour :=
  match t with [] => None | (k', v) :: r => if String.eqb k k' then Some v else lookup k r end.

Definition exempt_classes : list string := ["BarrierExpr"; "StateResultExpr"]%string.
Definition py_assign_classes : list string := ["Assign"; "AnnAssign"; "AugAssign"]%string.
Definition py_loop_classes : list string := ["For"; "While"]%string.
Definition mem (s : string) (l : list string) : bool := existsb (String.eqb s) l.

Lemma mem_In : forall s l, mem s l = true <-> In s l.
Proof.
  intros. unfold mem. rewrite existsb_exists. split; [intros [x [I E]]; apply String.eqb_eq in E; now subst | intros I; exists s; split; [exact I | apply String.eqb_refl]].
Qed.

(* ---------------------------------------------------------------- qubit detection on types *)
Section GtyInd.
  Variable P : gty -> Prop.
  Definition Parg (a : option gty) : Prop := match a with Some u => P u | None => True end.
  Hypothesis Hq : P GQubit.
  Hypothesis Hl : P GLeaf.
  Hypothesis Ho : forall args, Forall Parg args -> P (GOpaque args).
  Hypothesis Ht : forall args, Forall Parg args -> P (GTuple args).
  Hypothesis Hs : forall args fs, Forall Parg args -> Forall P fs -> P (GStruct args fs).

  Fixpoint gty_ind' (t : gty) : P t :=
    let goa := fix goa (l : list (option gty)) : Forall Parg l :=
      match l with
      | [] => Forall_nil _
      | a :: r => Forall_cons a (match a as a0 return Parg a0 with Some u => gty_ind' u | None => I end) (goa r)
      end in
    match t with
    | GQubit => Hq
    | GLeaf => Hl
    | GOpaque args => Ho args (goa args)
    | GTuple args => Ht args (goa args)
    | GStruct args fs => Hs args fs (goa args)
        ((fix gof (l : list gty) : Forall P l :=
            match l with [] => Forall_nil _ | u :: r => Forall_cons u (gty_ind' u) (gof r) end) fs)
    end.
End GtyInd.

Definition arg_visit (a : option gty) : bool := match a with Some u => ty_visit u | None => false end.

Lemma ty_go_args : forall l,
  (fix go (l : list (option gty)) {struct l} : bool :=
     match l with [] => false | a :: r => (match a with Some u => ty_visit u | None => false end) || go r end) l
  = existsb arg_visit l.
Proof. induction l; simpl; [reflexivity | now rewrite IHl]. Qed.

Lemma ty_go_fields : forall l,
  (fix gof (l : list gty) {struct l} : bool := match l with [] => false | u :: r => ty_visit u || gof r end) l
  = existsb ty_visit l.
Proof. induction l; simpl; [reflexivity | now rewrite IHl]. Qed.

Lemma args_exists : forall args,
  Forall (Parg (fun t => ty_visit t = true <-> qubit_occurs t)) args ->
  (existsb arg_visit args = true <-> exists u, In (Some u) args /\ qubit_occurs u).
Proof.
  intros args F. rewrite existsb_exists. rewrite Forall_forall in F. split.
  - intros [a [I V]]. destruct a as [u|]; [|discriminate]. exists u. split; [exact I | apply (F (Some u) I), V].
  - intros [u [I O]]. exists (Some u). split; [exact I | apply (F (Some u) I), O].
Qed.

Lemma fields_exists : forall fs,
  Forall (fun t => ty_visit t = true <-> qubit_occurs t) fs ->
  (existsb ty_visit fs = true <-> exists u, In u fs /\ qubit_occurs u).
Proof.
  intros fs F. rewrite existsb_exists. rewrite Forall_forall in F. split.
  - intros [u [I V]]. exists u. split; [exact I | apply (F u I), V].
  - intros [u [I O]]. exists u. split; [exact I | apply (F u I), O].
Qed.

Lemma ty_visit_iff : forall t, ty_visit t = true <-> qubit_occurs t.
Proof.
  induction t as [ | | args IH | args IH | args fs IHa IHf] using gty_ind'.
  - split; [constructor | reflexivity].
  - split; [discriminate | intro H; inversion H].
  - cbn [ty_visit]. rewrite ty_go_args, (args_exists args IH). split.
    + intros [u [I O]]. now apply (QO_opaque args u).
    + intro H. inversion H; subst. now exists u.
  - cbn [ty_visit]. rewrite ty_go_args, (args_exists args IH). split.
    + intros [u [I O]]. now apply (QO_tuple args u).
    + intro H. inversion H; subst. now exists u.
  - cbn [ty_visit]. rewrite ty_go_args, ty_go_fields, orb_true_iff, (args_exists args IHa), (fields_exists fs IHf). split.
    + intros [[u [I O]] | [u [I O]]]; [now apply (QO_field args fs u) | now apply (QO_sarg args fs u)].
    + intro H. inversion H; subst; [right | left]; now exists u.
Qed.
