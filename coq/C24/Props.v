(** C24 — Unitary contexts reject non-unitary quantum operations.
    Every statement is about the checker GENERATED from unitary_checker.py & co. on this run
    (GenUnitary.v: visit / check_block / check_cfg / check_call / precheck / the tables).
    Finite bound, stated in each theorem: flag sets range over [lattice] = the 8 subsets of
    {Control, Dagger, Power} (0..7); statements over blocks / nodes / argument lists are
    unbounded (induction). *)
From Coq Require Import ZArith List Bool String.
From V.C24 Require Import ModelBase GenUnitary Proofs.
Import ListNotations.
Open Scope Z_scope.

(** flag_rule: once the arguments themselves pass, a call node is rejected iff some
    argument's type contains a qubit and the context flags are not a subset of the callee's
    flags; the error reports exactly the missing flags.  ([subset] is bitwise, not the
    code's `&`/`==` test.) *)
Theorem flag_rule : forall fl cf args, In fl lattice -> In cf lattice ->
  visit_list fl (map fst args) = None ->
  (visit fl (NCall cf args) <> None <-> (exists p, In p args /\ snd p = true) /\ ~ subset fl cf) /\
  (visit fl (NCall cf args) <> None -> exists m, visit fl (NCall cf args) = Some (ECallFlags m) /\
     forall i, 0 <= i < 4 -> Z.testbit m i = Z.testbit fl i && negb (Z.testbit cf i)).
Proof.
  intros fl cf args Hf Hc A. rewrite visit_call_eq, A. simpl. unfold anyq. split.
  - rewrite (flag_rule_lemma fl cf (map snd args) Hf Hc). split.
    + intros [[q [I Q]] S]. split; [|exact S]. apply in_map_iff in I. destruct I as [p [E I]]. exists p. subst. auto.
    + intros [[p [I Q]] S]. split; [|exact S]. exists (snd p). split; [now apply in_map | exact Q].
  - apply missing_lemma; assumption.
Qed.
Print Assumptions flag_rule.

Example flag_rule_witness :
  visit 3 (NCall 1 [(NPlace false [], true); (NGeneric [], false)]) = Some (ECallFlags 2) /\
  visit 3 (NCall 1 [(NGeneric [], false)]) = None /\ visit 3 (NCall 7 [(NPlace false [], true)]) = None.
Proof. vm_compute. auto. Qed.

(** qubit_detection: `contain_qubit_ty` (QubitFinder over the accept methods of tys/ty.py) answers
    True exactly when a qubit occurs anywhere inside the type — at any nesting depth, through
    type arguments, tuple elements and struct fields.  Unbounded (induction on types). *)
Theorem qubit_detection : forall t, contains_qubit t = true <-> qubit_occurs t.
Proof. exact ty_visit_iff. Qed.
Print Assumptions qubit_detection.

Example qubit_detection_witness :   (* array[array[qubit]], tuple[int, tuple[int, array[qubit]]], struct with a qubit field, look-alikes *)
  contains_qubit (GOpaque [Some (GOpaque [Some GQubit; None]); None]) = true /\
  contains_qubit (GTuple [Some GLeaf; Some (GTuple [Some GLeaf; Some (GOpaque [Some GQubit; None])])]) = true /\
  contains_qubit (GStruct [] [GLeaf; GOpaque [Some (GTuple [Some GQubit])]]) = true /\
  contains_qubit (GOpaque [Some (GOpaque [Some GLeaf; None]); None]) = false /\
  contains_qubit (GStruct [] [GLeaf; GTuple [Some GLeaf]]) = false.
Proof. vm_compute. auto 6. Qed.

(** flag_rule_typed: the flag rule with the checker's own qubit test in the loop: a call whose
    arguments have types [tys] (and pass themselves) is rejected iff a qubit occurs in the type
    of some argument and the context flags are not a subset of the callee's. *)
Theorem flag_rule_typed : forall fl cf (targs : list (node * gty)), In fl lattice -> In cf lattice ->
  let args := map (fun p => (fst p, contains_qubit (snd p))) targs in
  visit_list fl (map fst args) = None ->
  (visit fl (NCall cf args) <> None <-> (exists p, In p targs /\ qubit_occurs (snd p)) /\ ~ subset fl cf).
Proof.
  intros fl cf targs Hf Hc args A. destruct (flag_rule fl cf args Hf Hc A) as [R _]. rewrite R. unfold args. split.
  - intros [[p [I Q]] S]. split; [|exact S]. apply in_map_iff in I. destruct I as [x [E I]]. subst p. simpl in Q.
    exists x. split; [exact I | now apply qubit_detection].
  - intros [[x [I Q]] S]. split; [|exact S]. exists (fst x, contains_qubit (snd x)). split.
    + apply in_map_iff. exists x. auto.
    + simpl. now apply qubit_detection.
Qed.
Print Assumptions flag_rule_typed.

(** checker_covers_all_calls: if check_cfg_unitary accepts a CFG then EVERY call node that
    occurs anywhere in any AST-bearing field of any block (cfg/bb.py: statements and the
    branch predicate), at any depth (nested argument in any position, assignment target or
    value, index expression of a subscripted place, inside a `with` body statement),
    satisfies the flag rule.  [wf_block]: callee flag sets lie in the lattice. *)
Theorem checker_covers_all_calls : forall fl bbs, In fl lattice -> Forall wf_block bbs ->
  check_cfg fl bbs = None ->
  forall b f n c, In b bbs -> In f bb_ast_fields -> In n (field_nodes b f) -> In c (calls n) ->
  call_ok fl c.
Proof.
  intros fl bbs Hf W H b f n c Hb Hfld Hn Hc.
  destruct (proj1 (check_cfg_iff fl bbs Hf W) H b f n Hb Hfld Hn) as [C _]. now apply C.
Qed.
Print Assumptions checker_covers_all_calls.

(** the block fields are generated data: the branch predicate is one of them *)
Theorem branch_predicate_is_checked : In FBranchPred bb_ast_fields /\ In FStatements bb_ast_fields /\
  forall f, In f bb_ast_fields -> In f checked_bb_fields.
Proof. split; [vm_compute; tauto | split; [vm_compute; tauto | exact fields_covered]]. Qed.
Print Assumptions branch_predicate_is_checked.

Example covers_witness :   (* `if nu(q): ...` in a control context; nested argument after a qubit; subscript index *)
  check_cfg 1 [mkBlock [] (Some (NCall 0 [(NPlace false [], true)]))] = Some (ECallFlags 1) /\
  check_cfg 1 [mkBlock [NGeneric [NCall 7 [(NPlace false [], true); (NCall 0 [(NPlace false [], true)], false)]]] None] = Some (ECallFlags 1) /\
  check_cfg 1 [mkBlock [NAssign [NPlace true [NCall 0 [(NPlace false [], true)]]] (Some (NGeneric []))] None] = Some (ECallFlags 1) /\
  check_cfg 1 [mkBlock [NGeneric [NCall 1 [(NPlace false [], true)]]] (Some (NCall 5 [(NPlace false [], true)]))] = None.
Proof. vm_compute. auto. Qed.

(** accepted_otherwise: exact characterisation — the CFG is accepted iff every call anywhere
    satisfies the rule and, when the context includes Dagger, no assignment and no subscripted
    place occurs. *)
Theorem accepted_iff : forall fl bbs, In fl lattice -> Forall wf_block bbs ->
  (check_cfg fl bbs = None <->
   forall b f n, In b bbs -> In f bb_ast_fields -> In n (field_nodes b f) ->
     (forall c, In c (calls n) -> call_ok fl c) /\
     (subset F_Dagger fl -> has_assign n = false /\ has_subscript n = false)).
Proof. exact check_cfg_iff. Qed.
Print Assumptions accepted_iff.

(** dagger_restrictions: in a context that includes Dagger
    (a) the block checker rejects any CFG containing an assignment or a subscripted place;
    (b) the function-level pre-check rejects iff a top-level statement contains a loop or an
        assignment (loops first), and does nothing without Dagger;
    (c) the classes it looks for are Python's three assignment and two loop statements, and each
        assignment class has a visitor in the block checker. *)
Theorem dagger_restrictions : forall fl, In fl lattice ->
  (forall bbs, Forall wf_block bbs -> subset F_Dagger fl ->
     (exists b f n, In b bbs /\ In f bb_ast_fields /\ In n (field_nodes b f) /\
                    (has_assign n = true \/ has_subscript n = true)) -> check_cfg fl bbs <> None) /\
  (forall l, precheck fl l <> None <-> subset F_Dagger fl /\ exists p, In p l /\ (fst p = true \/ snd p = true)) /\
  (forall l r, precheck fl ((true, r) :: l) <> None -> precheck fl ((true, r) :: l) = Some EDaggerLoop) /\
  (forall c, In c py_assign_classes <-> In c precheck_assign_classes) /\
  (forall c, In c py_loop_classes <-> In c precheck_loop_classes) /\
  (forall c, In c py_assign_classes -> lookup c visitor_table = Some BAssign).
Proof.
  intros fl Hf. pose proof (flag_in_subset F_Dagger fl dagger_in_lattice Hf) as DG.
  assert (LI : forall a b, forallb (fun c => mem c b) a = true -> forall c, In c a -> In c b).
  { intros a b H c Hc. rewrite forallb_forall in H. now apply mem_In, H. }
  split; [|split; [|split; [|split; [|split]]]].
  - intros bbs W D [b [f [n [Hb [Hfld [Hn Bad]]]]]] A.
    destruct (proj1 (check_cfg_iff fl bbs Hf W) A b f n Hb Hfld Hn) as [_ X]. destruct (X D) as [X1 X2].
    destruct Bad; congruence.
  - intro l. unfold precheck. destruct (flag_in F_Dagger fl) eqn:E; simpl.
    + rewrite precheck_stmts_iff. split; [intros H; split; [now apply DG | exact H] | intros [_ H]; exact H].
    + split; [congruence | intros [D _]; apply DG in D; congruence].
  - intros l r H. unfold precheck in *. destruct (flag_in F_Dagger fl); simpl in *; [reflexivity | congruence].
  - intro c. split; apply LI; vm_compute; reflexivity.
  - intro c. split; apply LI; vm_compute; reflexivity.
  - apply Forall_forall. vm_compute. repeat constructor.
Qed.
Print Assumptions dagger_restrictions.

Example dagger_witness :
  check_cfg 2 [mkBlock [NAssign [NPlace false []] (Some (NGeneric []))] None] = Some EDaggerAssign /\
  check_cfg 2 [mkBlock [NGeneric [NCall 2 [(NPlace true [], true)]]] None] = Some EDaggerSubscript /\
  check_cfg 5 [mkBlock [NGeneric [NCall 5 [(NPlace true [], true)]]] None] = None /\
  precheck 2 [(false, false); (true, true)] = Some EDaggerLoop /\ precheck 5 [(true, true)] = None.
Proof. vm_compute. auto 6. Qed.

(** every call node class of nodes.py (AnyCall) is dispatched to the flag rule, except exactly
    barrier and state_result *)
Theorem call_classes_dispatch :
  (forall c, In c anycall_members ->
     lookup c visitor_table = Some (if mem c exempt_classes then BExempt else BCall)) /\
  (forall c, lookup c visitor_table = Some BExempt -> In c exempt_classes) /\
  (forall c, lookup c visitor_table = Some BCall -> In c anycall_members).
Proof.
  split; [apply Forall_forall; vm_compute; repeat constructor|].
  assert (T : forallb (fun kv => match snd kv with
                                 | BExempt => mem (fst kv) exempt_classes
                                 | BCall => mem (fst kv) anycall_members
                                 | _ => true end) visitor_table = true) by (vm_compute; reflexivity).
  rewrite forallb_forall in T.
  assert (L : forall c v t, lookup c t = Some v -> In (c, v) t).
  { induction t as [|[k w] r IH]; simpl; [discriminate|]. destruct (String.eqb c k) eqn:E.
    - intros [= <-]. apply String.eqb_eq in E. subst. now left.
    - intros H. right. now apply IH. }
  split; intros c H; apply L, T in H; simpl in H; now apply mem_In.
Qed.
Print Assumptions call_classes_dispatch.

(** metadata_recorded: the decorator keywords become flag bits (unitary = all three), `with`
    modifiers likewise (dagger counts modulo 2), and add_unitarity_metadata stores exactly the
    declared flag value under the key "unitary" at the function-definition and
    modified-block compile sites. *)
Definition bit_of (b : bool) (f : Z) : Z := if b then f else 0.
Theorem metadata_recorded :
  (forall u c d p, metadata_value (parse_kwargs u c d p)
     = bit_of (u || c) F_Control + bit_of (u || d) F_Dagger + bit_of (u || p) F_Power) /\
  (forall nd nc np, In nd [0;1;2;3] -> In nc [0;1;2] -> In np [0;1;2] ->
     modifier_flags nd nc np = bit_of (Z.odd nd) F_Dagger + bit_of (0 <? nc) F_Control + bit_of (0 <? np) F_Power) /\
  (Z.land F_Control F_Dagger = 0 /\ Z.land F_Control F_Power = 0 /\ Z.land F_Dagger F_Power = 0 /\
   F_Control <> 0 /\ F_Dagger <> 0 /\ F_Power <> 0 /\ F_Unitary = F_Control + F_Dagger + F_Power /\ F_NoFlags = 0 /\
   forall f, In f [F_Control; F_Dagger; F_Power; F_Unitary; F_NoFlags] -> In f lattice) /\
  metadata_key = "unitary"%string /\
  In ("definition/function.py", "self.ty.unitary_flags")%string metadata_call_sites /\
  In ("compiler/modifier_compiler.py", "modified_block.ty.unitary_flags")%string metadata_call_sites.
Proof.
  split; [intros [] [] [] []; vm_compute; reflexivity|].
  split.
  { intros nd nc np Hd Hc Hp. simpl in Hd, Hc, Hp.
    repeat (destruct Hd as [<-|Hd]; [repeat (destruct Hc as [<-|Hc]; [repeat (destruct Hp as [<-|Hp]; [vm_compute; reflexivity|]); contradiction|]); contradiction|]); contradiction. }
  split; [vm_compute; repeat split; try discriminate; intros f H; repeat (destruct H as [<-|H]; [tauto|]); contradiction|].
  split; [reflexivity|]. split; vm_compute; tauto.
Qed.
Print Assumptions metadata_recorded.

(** flags_in_type_equality: a function type's unitary flags take part in type equality (they are a
    compared field of the FunctionType dataclass, next to inputs and output), so a local function
    value merged from branches / a conditional expression with differently-flagged candidates is a
    type mismatch and `visit_LocalCall` never sees flags that only some candidate has. *)
Theorem flags_in_type_equality :
  In "unitary_flags"%string functiontype_eq_fields /\ In "inputs"%string functiontype_eq_fields /\
  In "output"%string functiontype_eq_fields.
Proof. repeat split; apply mem_In; vm_compute; reflexivity. Qed.
Print Assumptions flags_in_type_equality.
