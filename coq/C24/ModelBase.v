(** C24 — hand-written base of the unitary-checker model: the data the checker walks
    (checked AST nodes as `ast.NodeVisitor` sees them), blocks, errors, and the
    SPECIFICATION side (every call anywhere, subset on flag bits).  No proofs here.
    The checker itself (visit / check_block / check_cfg, the flag test, the tables) is
    GENERATED from the Python source into GenUnitary.v. *)
From Coq Require Import ZArith List Bool String.
Import ListNotations.
Open Scope Z_scope.

(** errors raised by the unitary checks (what is raised first is modelled) *)
Inductive err :=
| ECallFlags (missing : Z)      (* UnitaryCallError(node, flags & ~callee_flags) *)
| EDaggerAssign                 (* InvalidUnderDagger(_, "Assignment") *)
| EDaggerLoop                   (* InvalidUnderDagger(_, "Loop") *)
| EDaggerSubscript.             (* UnsupportedError(_, "index access", .., "dagger context") *)

Definition orelse (a b : option err) : option err :=
  match a with Some e => Some e | None => b end.

(** A checked AST node, as seen by BBUnitaryChecker (an ast.NodeVisitor):
    - NCall    GlobalCall / LocalCall / TensorCall: callee's unitary flags and the argument
               expressions, each with "its type contains the qubit type";
    - NExempt  BarrierExpr / StateResultExpr (their arguments are places; not modelled);
    - NPlace   PlaceNode: whether the place chain contains a SubscriptAccess, and the
               index expressions (`item_expr`) of the subscripts along the chain;
    - NAssign  ast.Assign / AnnAssign / AugAssign: targets and optional value;
    - NGeneric every other node class (handled by ast.NodeVisitor.generic_visit, which
               visits every AST-valued field in `_fields` order): Expr, Return, BinOp,
               Compare, Tuple, Constant, CheckedModifiedBlock (its `body` statements), ... *)
Inductive node :=
| NCall (callee : Z) (args : list (node * bool))
| NExempt
| NPlace (subscript : bool) (idx : list node)
| NAssign (targets : list node) (value : option node)
| NGeneric (children : list node).

(** AST-bearing fields of a basic block *)
Inductive bbfield := FStatements | FBranchPred.
Definition bbfield_eqb (a b : bbfield) : bool :=
  match a, b with FStatements, FStatements | FBranchPred, FBranchPred => true | _, _ => false end.

Record block := mkBlock { b_statements : list node; b_branch_pred : option node }.

Definition field_nodes (b : block) (f : bbfield) : list node :=
  match f with
  | FStatements => b_statements b
  | FBranchPred => match b_branch_pred b with Some p => [p] | None => [] end
  end.

(** how a visit_* method of the checker treats a node class (generated table uses it) *)
Inductive behaviour := BCall | BExempt | BPlace | BAssign.
Definition behaviour_eqb (a b : behaviour) : bool :=
  match a, b with BCall, BCall | BExempt, BExempt | BPlace, BPlace | BAssign, BAssign => true | _, _ => false end.

(* ------------------------------------------------------------------------------------ *)
(** * Specification side (independent of the checker's code) *)

(** flag sets are 3-bit masks; [subset a b]: every bit of a is a bit of b *)
Definition subset (a b : Z) : Prop := forall i, 0 <= i -> Z.testbit a i = true -> Z.testbit b i = true.

(** a call occurrence: the callee's flags and, per argument, "type contains a qubit" *)
Definition callocc := (Z * list bool)%type.

(** every call node occurring anywhere below a node: in arguments (any position), index
    expressions of places, assignment targets and values, and any other child *)
Fixpoint calls (n : node) : list callocc :=
  match n with
  | NCall cf args =>
      (cf, map snd args) ::
      (fix go (l : list (node * bool)) : list callocc :=
         match l with [] => [] | p :: r => calls (fst p) ++ go r end) args
  | NExempt => []
  | NPlace _ idx =>
      (fix go (l : list node) : list callocc := match l with [] => [] | a :: r => calls a ++ go r end) idx
  | NAssign ts v =>
      (fix go (l : list node) : list callocc := match l with [] => [] | a :: r => calls a ++ go r end) ts
      ++ match v with Some x => calls x | None => [] end
  | NGeneric cs =>
      (fix go (l : list node) : list callocc := match l with [] => [] | a :: r => calls a ++ go r end) cs
  end.

(** does an assignment statement / a subscripted place occur anywhere below the node *)
Fixpoint has_assign (n : node) : bool :=
  match n with
  | NCall _ args => (fix go (l : list (node * bool)) := match l with [] => false | p :: r => has_assign (fst p) || go r end) args
  | NExempt => false
  | NPlace _ idx => (fix go (l : list node) := match l with [] => false | a :: r => has_assign a || go r end) idx
  | NAssign _ _ => true
  | NGeneric cs => (fix go (l : list node) := match l with [] => false | a :: r => has_assign a || go r end) cs
  end.

Fixpoint has_subscript (n : node) : bool :=
  match n with
  | NCall _ args => (fix go (l : list (node * bool)) := match l with [] => false | p :: r => has_subscript (fst p) || go r end) args
  | NExempt => false
  | NPlace s idx => s || (fix go (l : list node) := match l with [] => false | a :: r => has_subscript a || go r end) idx
  | NAssign ts v => (fix go (l : list node) := match l with [] => false | a :: r => has_subscript a || go r end) ts
                    || match v with Some x => has_subscript x | None => false end
  | NGeneric cs => (fix go (l : list node) := match l with [] => false | a :: r => has_subscript a || go r end) cs
  end.

(** the property's rule for one call in a context requiring flags [fl] *)
Definition call_ok (fl : Z) (c : callocc) : Prop :=
  existsb (fun q => q) (snd c) = false \/ subset fl (fst c).

(** all AST nodes of a block, over a list of block fields *)
Definition block_nodes (fields : list bbfield) (b : block) : list node := flat_map (field_nodes b) fields.

(** the three-bit flag lattice as a list, for the finite statements *)
Definition lattice : list Z := [0; 1; 2; 3; 4; 5; 6; 7].

(* ------------------------------------------------------------------------------------ *)
(** * Types, as `contain_qubit_ty` walks them (tys/qubit.py QubitFinder over tys/ty.py) *)

(** - GQubit   the OpaqueType that is the qubit type;
    - GLeaf    NumericType, NoneType, type variables (their `visit` calls the visitor once);
    - GOpaque  any other OpaqueType (array, list, option, ...): arguments, [None] = a const argument;
    - GTuple   TupleType (a ParametrizedTypeBase whose args are its element types);
    - GStruct  StructType: generic arguments and the (instantiated) field types.
    Function types are not modelled. *)
Inductive gty :=
| GQubit
| GLeaf
| GOpaque (args : list (option gty))
| GTuple (args : list (option gty))
| GStruct (args : list (option gty)) (fields : list gty).

(** SPECIFICATION: a qubit occurs somewhere inside the type (any depth; type arguments, tuple
    elements, struct fields) *)
Inductive qubit_occurs : gty -> Prop :=
| QO_here : qubit_occurs GQubit
| QO_opaque : forall args u, In (Some u) args -> qubit_occurs u -> qubit_occurs (GOpaque args)
| QO_tuple : forall args u, In (Some u) args -> qubit_occurs u -> qubit_occurs (GTuple args)
| QO_sarg : forall args fs u, In (Some u) args -> qubit_occurs u -> qubit_occurs (GStruct args fs)
| QO_field : forall args fs u, In u fs -> qubit_occurs u -> qubit_occurs (GStruct args fs).
