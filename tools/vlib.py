"""Shared plumbing for every property check in /verif.

A property check is a module  props/Cxx/check.py  exposing  run(ctx) -> None.
It uses the Ctx below to
  * regenerate Coq files from /repo's current source (ctx.gen),
  * rebuild the property's theorems (ctx.coq_make / ctx.coq_props),
  * evaluate model functions inside Coq for correspondence (ctx.coq_eval),
  * run the implementation side (ctx.impl),
  * report violations / known findings and write the evidence file.

Nothing here knows anything about guppylang.
"""
from __future__ import annotations

import hashlib
import json
import os
import re
import shutil
import subprocess
import sys
import tempfile
import time
from pathlib import Path

VERIF = Path(__file__).resolve().parent.parent
COQ = VERIF / "coq"
REPO = Path(os.environ.get("VERIF_REPO", "/repo"))
PY = "/venv/bin/python"
SRC_INT = "guppylang-internals/src/guppylang_internals"
SRC_PUB = "guppylang/src/guppylang"

FORBIDDEN = re.compile(
    r"\b(Admitted|admit|Axiom|Axioms|Parameter|Parameters|Conjecture|Conjectures|"
    r"Hypothesis|Hypotheses|Variable|Variables|Context)\b|Unset\s+Guard|bypass_check|"
    r"Admit\s+Obligations|type-in-type|impredicative-set|native_compute"
)


class TranslatorError(Exception):
    """Raised by a fail-closed translator that met source it does not understand."""


def sh(cmd, timeout=600, cwd=None, env=None, input=None):
    """Run a command, return (rc, stdout+stderr).  Never raises on timeout.
    Timeouts are safety nets against hung tools, not verdicts: they are scaled by
    VERIF_TIMEOUT_SCALE (default 3) so that a heavily loaded machine does not turn a slow
    coqc into an alarm."""
    timeout = int(timeout * float(os.environ.get("VERIF_TIMEOUT_SCALE", "3")))
    try:
        p = subprocess.run(
            cmd, cwd=cwd, env=env, input=input, text=True, timeout=timeout,
            stdout=subprocess.PIPE, stderr=subprocess.STDOUT,
            shell=isinstance(cmd, str),
        )
        return p.returncode, p.stdout
    except subprocess.TimeoutExpired as e:
        out = e.stdout or ""
        if isinstance(out, bytes):
            out = out.decode("utf8", "replace")
        return 124, out + f"\n[timeout after {timeout}s]"


def impl_env(repo: Path | None = None, hashseed: str = "0") -> dict:
    repo = repo or REPO
    env = dict(os.environ)
    env["PYTHONPATH"] = ":".join(
        [str(VERIF / "tools"), str(repo / "guppylang/src"), str(repo / "guppylang-internals/src")]
    )
    env["PYTHONHASHSEED"] = hashseed
    env["PYTHONDONTWRITEBYTECODE"] = "1"
    env["CQCL_GUPPYLANG_VERIF"] = "1"
    env["VERIF_REPO"] = str(repo)
    return env


# --------------------------------------------------------------------------------------
# Coq project handling


def write_if_changed(path: Path, text: str) -> bool:
    path.parent.mkdir(parents=True, exist_ok=True)
    if path.exists() and path.read_text() == text:
        return False
    path.write_text(text)
    return True


def coq_sources() -> list[str]:
    out = []
    for p in sorted(COQ.rglob("*.v")):
        rel = p.relative_to(COQ).as_posix()
        if "/_" in "/" + rel or rel.startswith("_"):
            continue  # scratch case files
        out.append(rel)
    return out


def scope_dirs(prop: str | None) -> list[str] | None:
    """Directories a property's build may see: Lib, its own, and its declared coq_deps
    (transitively).  None = the whole project."""
    if prop is None:
        return None
    seen, todo = [], [prop]
    while todo:
        d = todo.pop()
        if d in seen:
            continue
        seen.append(d)
        m = VERIF / "props" / d / "meta.json"
        if m.exists():
            try:
                todo += json.loads(m.read_text()).get("coq_deps", [])
            except Exception:
                pass
    return ["Lib"] + seen


def coq_project(scope: str | None = None) -> str:
    """(Re)generate _CoqProject[.scope] and Makefile[.scope] when the file list changed.
    Returns the Makefile name.  A scoped project only lists Lib + the property's own
    directory + its coq_deps, so that unrelated half-written files cannot disturb it."""
    files = coq_sources()
    dirs = scope_dirs(scope)
    suffix = "" if scope is None else f".{scope}"
    if dirs is not None:
        files = [f for f in files if f.split("/")[0] in dirs]
    text = "-Q . V\n-arg -w -arg -notation-overridden,-deprecated-hint-without-locality,-deprecated-instance-without-locality,-ambiguous-paths\n" + "\n".join(files) + "\n"
    changed = write_if_changed(COQ / f"_CoqProject{suffix}", text)
    mk = f"Makefile{suffix}"
    if changed or not (COQ / mk).exists():
        rc, out = sh(["coq_makefile", "-f", f"_CoqProject{suffix}", "-o", mk], cwd=COQ)
        if rc != 0:
            raise RuntimeError("coq_makefile failed:\n" + out)
    return mk


def forbidden_scan(files: list[Path]) -> list[str]:
    """Return 'file:line: text' for every forbidden token outside comments.

    Section-local Variable/Hypothesis/Context are allowed only between
    `Section` and `End`; we check that structurally."""
    hits = []
    for f in files:
        txt = f.read_text()
        # strip comments (nested)
        out, depth, i = [], 0, 0
        while i < len(txt):
            if txt.startswith("(*", i):
                depth += 1; i += 2; continue
            if txt.startswith("*)", i) and depth:
                depth -= 1; i += 2; continue
            if depth == 0:
                out.append(txt[i])
            elif txt[i] == "\n":
                out.append("\n")
            i += 1
        code = "".join(out)
        # strip string literals
        code = re.sub(r'"[^"\n]*"', '""', code)
        sec = 0
        for n, line in enumerate(code.split("\n"), 1):
            if re.match(r"\s*Section\b", line):
                sec += 1
            if re.match(r"\s*End\b", line) and sec:
                sec -= 1
            for m in FORBIDDEN.finditer(line):
                tok = m.group(0)
                if tok in ("Variable", "Variables", "Hypothesis", "Hypotheses", "Context") and sec > 0:
                    continue
                hits.append(f"{f.relative_to(VERIF)}:{n}: {tok}")
    return hits


class CoqResult:
    def __init__(self, ok, log, failed=None):
        self.ok, self.log, self.failed = ok, log, failed

    def error_excerpt(self, n=40):
        lines = self.log.strip().split("\n")
        idx = [i for i, l in enumerate(lines) if l.startswith("Error") or "Error:" in l]
        if idx:
            s = max(0, idx[0] - 6)
            return "\n".join(lines[s : s + n])
        return "\n".join(lines[-n:])


class _BuildLock:
    """Serialises project builds: several checks may run at once during development."""
    def __enter__(self):
        import fcntl
        COQ.mkdir(exist_ok=True)
        self.f = open(COQ / ".buildlock", "w")
        fcntl.flock(self.f, fcntl.LOCK_EX)
    def __exit__(self, *a):
        import fcntl
        fcntl.flock(self.f, fcntl.LOCK_UN)
        self.f.close()


def coq_make(targets: list[str], jobs: int = 16, timeout: int = 1500, scope: str | None = None) -> CoqResult:
    """Full .vo build of the given targets (paths relative to coq/, .vo)."""
    with _BuildLock():
        mk = coq_project(scope)
        rc, out = sh(["make", "-f", mk, f"-j{jobs}", "-k"] + targets, cwd=COQ, timeout=timeout)
    failed = None
    if rc != 0:
        m = re.search(r'File "\./([^"]+)", line (\d+)', out)
        if m:
            failed = f"{m.group(1)}:{m.group(2)}"
        else:
            m = re.search(r"\*\*\* \[[^\]]*?([\w/]+\.vo)", out)
            failed = m.group(1) if m else "unknown"
    return CoqResult(rc == 0, out, failed)


def coqc_file(path: Path, timeout: int = 600) -> tuple[int, str]:
    """Compile one file with the project's load path; returns (rc, output)."""
    return sh(["coqc", "-q", "-Q", str(COQ), "V", "-w", "-notation-overridden,-deprecated-hint-without-locality", str(path)],
              cwd=path.parent, timeout=timeout)


def parse_assumptions(out: str) -> dict:
    """Parse the output of a Props file that ends each theorem with Print Assumptions.
    Returns {'closed': n, 'axioms': sorted list of axiom names}."""
    closed = len(re.findall(r"Closed under the global context", out))
    axioms = set()
    for blk in re.findall(r"Axioms:\n((?:.+\n?)+?)(?=\n\S|\Z)", out):
        for m in re.finditer(r"^(\S+)\s*:", blk, re.M):
            if m.group(1) not in ("Axioms", "Axioms:"):
                axioms.add(m.group(1))
    # simpler fallback: lines of the form "name : type" right after "Axioms:"
    cur = False
    for line in out.split("\n"):
        if line.startswith("Axioms:"):
            cur = True
            continue
        if cur:
            m = re.match(r"^([A-Za-z_][\w.']*)\s*:", line)
            if m and m.group(1) != "Axioms":
                axioms.add(m.group(1))
            elif line and not line.startswith(" "):
                cur = False
    return {"closed": closed, "axioms": sorted(axioms)}


STD_AXIOMS = {
    # axioms the Coq standard library itself declares; allowed when named
    "functional_extensionality_dep", "FunctionalExtensionality.functional_extensionality_dep",
    "classic", "Classical_Prop.classic", "proof_irrelevance", "JMeq_eq", "JMeq.JMeq_eq",
    "Eqdep.Eq_rect_eq.eq_rect_eq", "eq_rect_eq", "propositional_extensionality",
    "ClassicalEpsilon.constructive_indefinite_description", "constructive_indefinite_description",
}
PRIM_PREFIXES = ("PrimFloat.", "Uint63.", "PrimInt63.", "FloatOps.", "Sint63.", "FloatAxioms.", "Uint63Axioms.", "PArray.", "float", "int")


def count_theorems(path: Path) -> list[str]:
    txt = path.read_text()
    return re.findall(r"^\s*(?:Theorem|Lemma|Corollary|Example|Fact|Proposition)\s+([\w']+)", txt, re.M)


# --------------------------------------------------------------------------------------


class Violation(Exception):
    pass


class Ctx:
    def __init__(self, prop: str, tier: str, seed: int):
        self.prop, self.tier, self.seed = prop, tier, seed
        self.repo = REPO
        self.t0 = time.time()
        self.dir = VERIF / "props" / prop
        self.coqdir = COQ / prop
        self.violations: list[dict] = []
        self.known_hits: list[str] = []
        self.notes: list[str] = []
        self.cov: dict = {}
        self.assumptions: list[str] = []
        self._scratch = None
        self.quick = tier == "quick"
        self.known = []
        for kf in (VERIF / "known_findings.json", self.dir / "known_findings.json"):
            if kf.exists():
                for k in json.loads(kf.read_text()):
                    if k.get("property") == prop and k not in self.known:
                        self.known.append(k)

    # ---- paths -----------------------------------------------------------------
    def src(self, rel: str) -> Path:
        p = self.repo / rel
        if not p.exists():
            raise TranslatorError(f"source file missing: {rel}")
        return p

    def int_src(self, rel: str) -> Path:
        return self.src(f"{SRC_INT}/{rel}")

    def pub_src(self, rel: str) -> Path:
        return self.src(f"{SRC_PUB}/{rel}")

    @property
    def scratch(self) -> Path:
        if self._scratch is None:
            self._scratch = Path(tempfile.mkdtemp(prefix=f"verif_{self.prop}_"))
        return self._scratch

    def cleanup(self):
        if self._scratch is not None:
            shutil.rmtree(self._scratch, ignore_errors=True)

    # ---- Coq -------------------------------------------------------------------
    def gen(self, name: str, text: str) -> Path:
        """Write a regenerated Coq file coq/<prop>/<name> (only touched if changed)."""
        p = self.coqdir / name
        write_if_changed(p, text)
        return p

    def coq_make(self, targets: list[str] | None = None, timeout: int = 1500) -> CoqResult:
        targets = targets or [f"{self.prop}/Props.vo"]
        return coq_make(targets, timeout=timeout, scope=self.prop)

    def coq_props(self, props_file: str | None = None, extra_scan: list[str] | None = None) -> dict:
        """Build the property's theorem file and everything under it, then re-run coqc on
        the Props file itself to collect Print Assumptions.  Returns a dict with
        ok, obligations, discharged, axioms, log, failed."""
        rel = props_file or f"{self.prop}/Props.v"
        res = coq_make([rel[:-2] + ".vo"], scope=self.prop)
        props_path = COQ / rel
        # obligations = theorems in every project file the Props file depends on inside
        # this property's directory + the Props file itself
        names = []
        for f in sorted(self.coqdir.glob("*.v")):
            names += [f"{f.name}:{n}" for n in count_theorems(f)]
        info = {"ok": res.ok, "obligations": len(names), "discharged": 0, "axioms": [],
                "log": res.log, "failed": res.failed, "theorems": names,
                "props_theorems": count_theorems(props_path) if props_path.exists() else []}
        scan_files = []
        for d in scope_dirs(self.prop):
            scan_files += sorted((COQ / d).glob("*.v"))
        for e in extra_scan or []:
            scan_files += sorted((COQ / e).glob("*.v"))
        hits = forbidden_scan(scan_files)
        if hits:
            info["ok"] = False
            info["failed"] = "forbidden construct: " + "; ".join(hits[:5])
            info["log"] += "\nFORBIDDEN: " + "\n".join(hits)
            return info
        if not res.ok:
            # count what did build
            built = 0
            # a .vo counts only if it is newer than its source and than every regenerated
            # file in scope (otherwise it may be a stale leftover of a dependent that make
            # could not rebuild)
            gens = [g.stat().st_mtime for d in scope_dirs(self.prop) for g in (COQ / d).glob("Gen*.v")]
            newest_gen = max(gens) if gens else 0
            for f in sorted(self.coqdir.glob("*.v")):
                vo = f.with_suffix(".vo")
                if vo.exists() and vo.stat().st_mtime >= f.stat().st_mtime and vo.stat().st_mtime >= newest_gen:
                    built += len(count_theorems(f))
            if (COQ / rel).with_suffix(".vo").exists() and built >= len(names):
                built = max(0, len(names) - 1)
            info["discharged"] = built
            return info
        rc, out = coqc_file(props_path)
        if rc != 0:
            info["ok"] = False
            info["failed"] = rel
            info["log"] += out
            return info
        pa = parse_assumptions(out)
        info["axioms"] = pa["axioms"]
        info["closed"] = pa["closed"]
        bad = [a for a in pa["axioms"] if a not in STD_AXIOMS and not a.startswith(PRIM_PREFIXES)]
        if bad:
            info["ok"] = False
            info["failed"] = "non-standard axioms: " + ", ".join(bad)
            return info
        info["discharged"] = len(names)
        info["assumptions_text"] = out[-3000:]
        return info

    def coq_eval(self, name: str, body: str, timeout: int = 900) -> str:
        """Compile a scratch file (under the scratch dir) that Requires project modules and
        prints results; returns coqc's output.  Raises RuntimeError on failure."""
        d = self.scratch / "coq"
        d.mkdir(exist_ok=True)
        f = d / f"{name}.v"
        f.write_text(body)
        rc, out = coqc_file(f, timeout=timeout)
        if rc != 0:
            raise RuntimeError(f"coq_eval {name} failed (rc={rc}):\n{out[-4000:]}")
        return out

    def coq_eval_many(self, files: dict[str, str], jobs: int = 16, timeout: int = 900) -> dict[str, str]:
        """Compile several scratch files in parallel; returns name -> output."""
        from concurrent.futures import ThreadPoolExecutor
        with ThreadPoolExecutor(max_workers=jobs) as ex:
            futs = {n: ex.submit(self.coq_eval, n, b, timeout) for n, b in files.items()}
            return {n: f.result() for n, f in futs.items()}

    # ---- implementation side ------------------------------------------------------
    def impl(self, script: str | Path, payload=None, args: list[str] | None = None,
             hashseed: str = "0", timeout: int = 1800, check: bool = True) -> str:
        """Run a harness script with /venv python against the repo sources.  `payload`
        (JSON-serialisable) is given on stdin.  Returns stdout."""
        script = Path(script)
        if not script.is_absolute():
            script = self.dir / script
        env = impl_env(self.repo, hashseed)
        inp = json.dumps(payload) if payload is not None else None
        p = subprocess.run([PY, str(script)] + (args or []), input=inp, text=True, env=env,
                           stdout=subprocess.PIPE, stderr=subprocess.PIPE, timeout=timeout,
                           cwd=str(self.scratch))
        if check and p.returncode != 0:
            raise RuntimeError(f"impl harness {script.name} failed rc={p.returncode}:\n{p.stderr[-4000:]}")
        return p.stdout

    # ---- results -----------------------------------------------------------------
    def is_known(self, key: str) -> dict | None:
        for k in self.known:
            if k.get("status") == "known" and k.get("key") == key:
                return k
        return None

    def report(self, key: str, kind: str, name: str, detail: dict, found_input: bool = True):
        """Report a property violation.  `key` identifies the concrete failing input (used
        to match known findings); kind in proof-broken | correspondence | counterexample."""
        k = self.is_known(key)
        if k is not None:
            msg = f"KNOWN-FINDING: property={self.prop} {k.get('what', key)}"
            if msg not in self.known_hits:
                self.known_hits.append(msg)
                print(msg, flush=True)
            return
        rdir = VERIF / "replays"
        rdir.mkdir(exist_ok=True)
        h = hashlib.sha1((key + kind + name).encode()).hexdigest()[:10]
        path = rdir / f"{self.prop}-{h}.json"
        rec = {"property": self.prop, "kind": kind, "name": name, "key": key,
               "found_failing_input": found_input, "seed": self.seed, "tier": self.tier,
               "detail": detail,
               "rerun": f"./check {self.prop} --tier {self.tier} (VERIF_SEED={self.seed})"}
        path.write_text(json.dumps(rec, indent=1, default=str))
        line = f"VIOLATION property={self.prop} replay={path}"
        if not found_input:
            line += " no-failing-input-found"
        print(line, flush=True)
        self.violations.append(rec)

    def finish(self, level: str, coverage: dict, assumptions: list[str]) -> int:
        ev = {
            "property_id": self.prop, "tier": self.tier, "seed": self.seed, "level": level,
            "coverage": coverage, "assumptions": assumptions,
            "wall_s": round(time.time() - self.t0, 2), "violations": len(self.violations),
            "known_findings_reported": self.known_hits,
            "repo": str(self.repo),
        }
        # evidence/ only ever holds runs against /repo itself; development runs against
        # another tree (VERIF_REPO=…) are written elsewhere so they cannot be committed
        evdir = VERIF / "evidence" if str(self.repo) == "/repo" else Path(tempfile.gettempdir()) / "verif_dev_evidence"
        evdir.mkdir(exist_ok=True)
        (evdir / f"{self.prop}.json").write_text(json.dumps(ev, indent=1, default=str))
        self.cleanup()
        return 1 if self.violations else 0


def proof_coverage(info: dict, checker_cmd: str, trusted: list[str], **extra) -> dict:
    cov = {
        "obligations": info["obligations"], "discharged": info["discharged"],
        "checker_cmd": checker_cmd,
        "trusted_base": trusted + [f"Print Assumptions: {info.get('closed', 0)} theorem(s) closed under the global context; axioms reported: {info.get('axioms') or 'none'}"],
        "theorems": info.get("theorems", []),
    }
    cov.update(extra)
    return cov


def rng(seed: int, salt: str = ""):
    import random
    return random.Random(f"{seed}/{salt}")


def parse_coq_values(out: str) -> list:
    """Parse every `= <value> : <type>` block printed by Eval/Compute where the value is
    built from lists, tuples, integers, booleans and strings.  Returns one Python value
    per block."""
    import ast as _ast
    vals = []
    # blocks start with a line beginning "     = " and end before the last "\n     : "
    for m in re.finditer(r"^\s*= (.*?)\n\s*: [^\n]*(?:\n(?=\s*=|\Z|[A-Z])|\Z)", out, re.S | re.M):
        txt = m.group(1)
        txt = re.sub(r"%(Z|nat|N|positive|string|char)\b", "", txt)
        txt = txt.replace(";", ",")
        txt = re.sub(r"\btrue\b", "True", txt)
        txt = re.sub(r"\bfalse\b", "False", txt)
        txt = re.sub(r"\s+", " ", txt)
        vals.append(_ast.literal_eval(txt))
    return vals
