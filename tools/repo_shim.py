"""Compatibility shim: lets /repo's guppylang 0.21.6 import and run on the sandbox's newer
hugr / tket-exts (0.18 / 0.14).  Contains no compiler logic.  Import it *first*:

    import repo_shim  # noqa: F401   (PYTHONPATH is set by vlib.impl_env)

It (1) registers a stand-in `tket.bool` HUGR extension (type `bool`; ops read, make_opaque,
not, eq, and, or, xor) because tket_exts dropped it, (2) aliases tket_exts.qsystem to
qsystem_helios, (3) gives hugr Node a `metadata` property, (4) lets `hugr.val.Extension(...)` accept and
ignore the `extensions=` keyword that hugr 0.14 had.  Part of the trusted base of
every correspondence check that needs the full compiler."""
import os
import sys

_repo = os.environ.get("VERIF_REPO", "/repo")
for _p in (f"{_repo}/guppylang-internals/src", f"{_repo}/guppylang/src"):
    if _p not in sys.path:
        sys.path.insert(0, _p)

import semver  # noqa: E402
import tket_exts  # noqa: E402
from hugr import ext as he, tys as ht  # noqa: E402
import hugr.hugr.node_port as _np  # noqa: E402

_e = he.Extension("tket.bool", semver.Version(0, 2, 0))
_td = he.TypeDef(name="bool", description="opaque bool", params=[],
                 bound=he.ExplicitBound(ht.TypeBound.Copyable))
_e.add_type_def(_td)
_B = ht.ExtType(_td)


def _op(name, ins, outs):
    _e.add_op_def(he.OpDef(name=name, description=name,
                           signature=he.OpDefSig(ht.FunctionType(ins, outs))))


_op("read", [_B], [ht.Bool])
_op("make_opaque", [ht.Bool], [_B])
_op("not", [_B], [_B])
for _n in ["eq", "and", "or", "xor"]:
    _op(_n, [_B, _B], [_B])
if not hasattr(tket_exts, "bool"):
    tket_exts.bool = lambda: _e
if not hasattr(tket_exts, "qsystem"):
    tket_exts.qsystem = tket_exts.qsystem_helios
_MD = {}
if not hasattr(_np.Node, "metadata"):
    _np.Node.metadata = property(lambda self: _MD.setdefault(self.idx, {}))

import hugr.val as _hv  # noqa: E402

_orig_ext_init = _hv.Extension.__init__
if "extensions" not in _orig_ext_init.__code__.co_varnames:
    def _ext_init(self, name, typ, val, extensions=None):  # hugr >= 0.15 dropped `extensions`
        _orig_ext_init(self, name, typ, val)
    _hv.Extension.__init__ = _ext_init

import guppylang  # noqa: E402,F401
assert guppylang.__file__.startswith(_repo), f"guppylang imported from {guppylang.__file__}, expected {_repo}"
