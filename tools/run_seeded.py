#!/usr/bin/env python3
"""Run the registered check of a seeded change's property against the change.

  run_seeded.py <seeded-dir>... [--tier quick|thorough] [--inplace]

Default: a scratch worktree of /repo HEAD under /tmp with patch.diff applied, check run with
VERIF_REPO pointing at it (does not disturb /repo).  --inplace: `git -C /repo apply`, run the
check against /repo itself, `git -C /repo checkout -- .` (the way the brief prescribes; only
when nothing else is using /repo).  Writes <seeded-dir>/result.json and prints one line."""
import json
import os
import shutil
import subprocess
import sys
import time
from pathlib import Path

V = Path(__file__).resolve().parent.parent


def sh(cmd, **kw):
    return subprocess.run(cmd, text=True, stdout=subprocess.PIPE, stderr=subprocess.STDOUT, **kw)


def main():
    args = [a for a in sys.argv[1:] if not a.startswith("--")]
    tier = sys.argv[sys.argv.index("--tier") + 1] if "--tier" in sys.argv else "quick"
    if "--tier" in sys.argv:
        args.remove(tier)
    inplace = "--inplace" in sys.argv
    for d in map(Path, args):
        d = d.resolve()
        meta = json.loads((d / "meta.json").read_text())
        props = meta.get("checks") or [meta["property"]]
        patch = d / "patch.diff"
        t0 = time.time()
        if inplace:
            tree = Path("/repo")
            st = sh(["git", "-C", "/repo", "status", "--porcelain", "--untracked-files=no"]).stdout.strip()
            if st:
                print(f"{d.name}: /repo not clean, skipping"); continue
        else:
            tree = Path(f"/tmp/seedrun_{d.name}")
            sh(["git", "-C", "/repo", "worktree", "remove", "--force", str(tree)])
            r = sh(["git", "-C", "/repo", "worktree", "add", "-q", "--detach", str(tree), "HEAD"])
            if r.returncode:
                print(r.stdout); continue
        r = sh(["git", "-C", str(tree), "apply", str(patch)])
        res = {"seed": d.name, "tier": tier, "tree": str(tree), "apply_rc": r.returncode, "apply_out": r.stdout, "checks": {}}
        if r.returncode == 0:
            for p in props:
                env = dict(os.environ, VERIF_REPO=str(tree))
                c = sh([str(V / "check"), p, "--tier", tier], env=env, cwd=V)
                lines = [l for l in c.stdout.split("\n") if l.startswith(("VIOLATION", "KNOWN-FINDING"))]
                res["checks"][p] = {"rc": c.returncode, "lines": lines, "tail": c.stdout[-1500:]}
                for l in lines:
                    if l.startswith("VIOLATION") and "replay=" in l:
                        rp = Path(l.split("replay=")[1].split()[0])
                        if rp.exists():
                            shutil.copy(rp, d / f"replay_{p}.json")
        if inplace:
            sh(["git", "-C", "/repo", "checkout", "--", "."])
        else:
            sh(["git", "-C", "/repo", "worktree", "remove", "--force", str(tree)])
        res["wall_s"] = round(time.time() - t0, 1)
        (d / "result.json").write_text(json.dumps(res, indent=1))
        caught = {p: (v["rc"] == 1 and any(l.startswith("VIOLATION") for l in v["lines"])) for p, v in res["checks"].items()}
        print(f"{d.name}: apply_rc={res['apply_rc']} caught={caught} ({res['wall_s']}s)")


if __name__ == "__main__":
    main()
