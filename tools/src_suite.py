#!/usr/bin/env python3
"""Run /repo's own pytest suite against a tree's *own sources* (the pinned BASELINE command
imports the venv's guppylang 1.0.4 and never executes /repo's code).  Used to validate fix:
commits and seeded changes:   src_suite.py <tree> [--save baseline] [--compare baseline]
Prints the passed-test count and, with --compare, the tests that passed in the baseline but
not now (regressions) and vice versa."""
import os
import subprocess
import sys
import tempfile
import xml.etree.ElementTree as ET
from pathlib import Path

TOOLS = Path(__file__).resolve().parent


def run(tree: str, extra: list[str]) -> set[str]:
    with tempfile.TemporaryDirectory() as d:
        xml = f"{d}/r.xml"
        env = dict(os.environ, VERIF_REPO=tree, PYTHONPATH=str(TOOLS), PYTHONHASHSEED="0", PYTHONDONTWRITEBYTECODE="1")
        subprocess.run(["/venv/bin/python", "-m", "pytest", "-q", "-p", "repo_shim", "-p", "no:cacheprovider",
                        "--timeout=600", "-n", "12", "tests", f"--junitxml={xml}"] + extra,
                       cwd=tree, env=env, stdout=subprocess.DEVNULL, stderr=subprocess.DEVNULL, timeout=3000)
        passed = set()
        for tc in ET.parse(xml).getroot().iter("testcase"):
            if not any(c.tag in ("failure", "error", "skipped") for c in tc):
                passed.add(f"{tc.get('classname')}::{tc.get('name')}".replace(tree.rstrip("/") + "/", "<tree>/"))
        return passed


def main():
    a = sys.argv[1:]
    tree = os.path.realpath(a[0])
    passed = run(tree, [])
    print(f"passed: {len(passed)}")
    if "--save" in a:
        p = Path(a[a.index("--save") + 1])
        prev = set(p.read_text().split("\n")) - {""} if p.exists() and "--intersect" in a else None
        keep = passed if prev is None else passed & prev
        p.write_text("\n".join(sorted(keep)) + "\n")
        print(f"saved {len(keep)} to {p}")
    if "--compare" in a:
        base = set(Path(a[a.index("--compare") + 1]).read_text().split("\n")) - {""}
        lost = sorted(base - passed)
        print(f"baseline {len(base)}; lost {len(lost)}; gained {len(passed - base)}")
        for t in lost[:40]:
            print("  LOST", t)
        sys.exit(1 if lost else 0)


if __name__ == "__main__":
    main()
