#!/usr/bin/env python3
"""import_seed.py <src-dir> <name> [--suite]
Copy a seeded change (patch.diff, demo.py, meta.json) into /verif/seeded/<name>/ and confirm it
ourselves on a scratch worktree of /repo HEAD: patch applies; demo exits 0 on the clean tree
and non-zero on the patched tree; with --suite, /repo's own tests run against the patched
sources lose nothing w.r.t. tools/src_suite_baseline.txt.  Writes confirm.json."""
import json
import os
import shutil
import subprocess
import sys
from pathlib import Path

V = Path(__file__).resolve().parent.parent


def sh(cmd, **kw):
    return subprocess.run(cmd, text=True, stdout=subprocess.PIPE, stderr=subprocess.STDOUT, **kw)


def demo(tree, d):
    env = dict(os.environ, VERIF_REPO=str(tree), PYTHONPATH=str(V / "tools"), PYTHONHASHSEED="0", PYTHONDONTWRITEBYTECODE="1")
    r = sh(["/venv/bin/python", str(d / "demo.py")], env=env, cwd=str(d), timeout=1800)
    return r.returncode, r.stdout[-800:]


src, name = Path(sys.argv[1]), sys.argv[2]
d = V / "seeded" / name
d.mkdir(parents=True, exist_ok=True)
for f in ("patch.diff", "demo.py", "meta.json"):
    shutil.copy(src / f, d / f)
tree = Path(f"/tmp/seedconfirm_{name}")
sh(["git", "-C", "/repo", "worktree", "remove", "--force", str(tree)])
sh(["git", "-C", "/repo", "worktree", "add", "-q", "--detach", str(tree), "HEAD"])
res = {"name": name, "repo_head": sh(["git", "-C", "/repo", "rev-parse", "--short", "HEAD"]).stdout.strip()}
res["demo_clean_rc"], res["demo_clean_out"] = demo(tree, d)
a = sh(["git", "-C", str(tree), "apply", str(d / "patch.diff")])
res["apply_rc"] = a.returncode
res["apply_out"] = a.stdout[-500:]
if a.returncode == 0:
    res["demo_patched_rc"], res["demo_patched_out"] = demo(tree, d)
    if "--suite" in sys.argv:
        s = sh([sys.executable, str(V / "tools/src_suite.py"), str(tree), "--compare", str(V / "tools/src_suite_baseline.txt")])
        res["suite_rc"], res["suite_out"] = s.returncode, s.stdout[-600:]
sh(["git", "-C", "/repo", "worktree", "remove", "--force", str(tree)])
res["confirmed"] = res.get("demo_clean_rc") == 0 and res.get("apply_rc") == 0 and res.get("demo_patched_rc", 0) != 0 and res.get("suite_rc", 0) == 0
(d / "confirm.json").write_text(json.dumps(res, indent=1))
print(name, "confirmed" if res["confirmed"] else "NOT CONFIRMED", {k: v for k, v in res.items() if k.endswith("_rc")})
