"""Fail-closed translation of small Python functions into Coq text.

The translator is *typed*: every Python sub-expression gets a model type name
(a plain string such as 'Z', 'bool', 'Loc', 'string', 'option Span').  Operators
are resolved through per-type tables supplied by the caller, so the same Python
`<=` becomes `Z.leb`, `loc_leb`, ... depending on operand type.  Anything not in
the tables raises TranslatorError: an unknown shape is a broken tie, never a guess.

Reading conventions (trusted, see DESIGN.md section 6):
  * Python `int` in compiler-side code  -> Coq Z, exact arithmetic
  * `a <= b <= c`                          -> (a <=? b) && (b <=? c)   (b evaluated once; b must be pure)
  * `and` / `or` / `not` on bools          -> && / || / negb
  * `x if c else y`                        -> if c then x else y
  * a function body that is a sequence of  `if c: return e` / `return e` / `raise E(...)`
    statements                             -> nested if-then-else over an outcome type
"""
from __future__ import annotations

import ast
from dataclasses import dataclass, field
from pathlib import Path

from vlib import TranslatorError


def parse_file(path: Path) -> ast.Module:
    return ast.parse(Path(path).read_text(), filename=str(path))


def find_class(mod: ast.AST, name: str) -> ast.ClassDef:
    for n in ast.walk(mod):
        if isinstance(n, ast.ClassDef) and n.name == name:
            return n
    raise TranslatorError(f"class {name} not found")


def find_func(scope: ast.AST, name: str) -> ast.FunctionDef:
    body = scope.body if hasattr(scope, "body") else []
    for n in body:
        if isinstance(n, ast.FunctionDef) and n.name == name:
            return n
    raise TranslatorError(f"function {name} not found in {getattr(scope, 'name', 'module')}")


def find_assign(scope: ast.AST, name: str) -> ast.expr:
    for n in scope.body:
        if isinstance(n, ast.Assign) and len(n.targets) == 1 and isinstance(n.targets[0], ast.Name) and n.targets[0].id == name:
            return n.value
        if isinstance(n, ast.AnnAssign) and isinstance(n.target, ast.Name) and n.target.id == name and n.value is not None:
            return n.value
    raise TranslatorError(f"assignment to {name} not found")


def strip_doc(body: list[ast.stmt]) -> list[ast.stmt]:
    if body and isinstance(body[0], ast.Expr) and isinstance(body[0].value, ast.Constant) and isinstance(body[0].value.value, str):
        return body[1:]
    return body


def dataclass_fields(cls: ast.ClassDef) -> list[tuple[str, str]]:
    """[(field, annotation-source)] of the annotated, non-ClassVar fields in order."""
    out = []
    for n in cls.body:
        if isinstance(n, ast.AnnAssign) and isinstance(n.target, ast.Name):
            ann = ast.unparse(n.annotation)
            if ann.startswith("ClassVar"):
                continue
            out.append((n.target.id, ann))
    return out


def decorator_kwargs(cls: ast.ClassDef, name: str = "dataclass") -> dict[str, object]:
    for d in cls.decorator_list:
        if isinstance(d, ast.Call) and ast.unparse(d.func).endswith(name):
            return {k.arg: ast.literal_eval(k.value) for k in d.keywords}
        if ast.unparse(d).endswith(name):
            return {}
    raise TranslatorError(f"class {cls.name} has no @{name} decorator")


CMP = {ast.Eq: "eq", ast.NotEq: "ne", ast.Lt: "lt", ast.LtE: "le", ast.Gt: "gt", ast.GtE: "ge"}
BIN = {ast.Add: "add", ast.Sub: "sub", ast.Mult: "mul", ast.FloorDiv: "floordiv", ast.Mod: "mod",
       ast.LShift: "shl", ast.RShift: "shr", ast.BitAnd: "band", ast.BitOr: "bor", ast.BitXor: "bxor",
       ast.Pow: "pow"}

Z_OPS = {
    "eq": ("Z.eqb {a} {b}", "bool"), "ne": ("negb (Z.eqb {a} {b})", "bool"),
    "lt": ("Z.ltb {a} {b}", "bool"), "le": ("Z.leb {a} {b}", "bool"),
    "gt": ("Z.ltb {b} {a}", "bool"), "ge": ("Z.leb {b} {a}", "bool"),
    "add": ("Z.add {a} {b}", "Z"), "sub": ("Z.sub {a} {b}", "Z"), "mul": ("Z.mul {a} {b}", "Z"),
    "floordiv": ("Z.div {a} {b}", "Z"), "mod": ("Z.modulo {a} {b}", "Z"),
    "shl": ("Z.shiftl {a} {b}", "Z"), "shr": ("Z.shiftr {a} {b}", "Z"),
    "band": ("Z.land {a} {b}", "Z"), "bor": ("Z.lor {a} {b}", "Z"), "bxor": ("Z.lxor {a} {b}", "Z"),
    "pow": ("Z.pow {a} {b}", "Z"),
    "neg": ("Z.opp {a}", "Z"), "max": ("Z.max {a} {b}", "Z"), "min": ("Z.min {a} {b}", "Z"),
}
BOOL_OPS = {
    "eq": ("Bool.eqb {a} {b}", "bool"), "ne": ("negb (Bool.eqb {a} {b})", "bool"),
}
STR_OPS = {
    "eq": ("String.eqb {a} {b}", "bool"), "ne": ("negb (String.eqb {a} {b})", "bool"),
}


@dataclass
class ExprTr:
    """env:   python name -> (coq term, type)
    attrs: (type, attr) -> (coq function applied to the object term, result type)
    ops:   type -> {opname -> (template with {a},{b}, result type)}
    calls: python callee source -> handler(tr, call_node) -> (term, type)
    consts: python dotted name -> (coq term, type) for module-level constants"""
    env: dict = field(default_factory=dict)
    attrs: dict = field(default_factory=dict)
    ops: dict = field(default_factory=lambda: {"Z": Z_OPS, "bool": BOOL_OPS, "string": STR_OPS})
    calls: dict = field(default_factory=dict)
    isinstance_facts: dict = field(default_factory=dict)  # (name, class) -> bool

    def fail(self, node, why):
        raise TranslatorError(f"cannot translate `{ast.unparse(node)}` (line {getattr(node, 'lineno', '?')}): {why}")

    def op(self, node, ty, name, a, b=""):
        tab = self.ops.get(ty)
        if tab is None or name not in tab:
            self.fail(node, f"no operator {name} on type {ty}")
        tmpl, rty = tab[name]
        return "(" + tmpl.format(a=a, b=b) + ")", rty

    def expr(self, e: ast.expr) -> tuple[str, str]:
        if isinstance(e, ast.Constant):
            v = e.value
            if isinstance(v, bool):
                return ("true" if v else "false"), "bool"
            if isinstance(v, int):
                return f"({v})%Z", "Z"
            if v is None:
                return "None", "none"
            if isinstance(v, str):
                if '"' in v or "\\" in v or any(ord(c) > 126 or ord(c) < 32 for c in v):
                    self.fail(e, "string literal with special characters")
                return f'"{v}"%string', "string"
            self.fail(e, "constant kind")
        if isinstance(e, ast.Name):
            if e.id in self.env:
                return self.env[e.id]
            self.fail(e, "unknown name")
        if isinstance(e, ast.Attribute):
            src = ast.unparse(e)
            if src in self.env:
                return self.env[src]
            o, ty = self.expr(e.value)
            key = (ty, e.attr)
            if key not in self.attrs:
                self.fail(e, f"unknown attribute {e.attr} on {ty}")
            fn, rty = self.attrs[key]
            return f"({fn} {o})", rty
        if isinstance(e, ast.UnaryOp):
            a, ty = self.expr(e.operand)
            if isinstance(e.op, ast.Not):
                if ty != "bool":
                    self.fail(e, f"`not` on non-bool {ty}")
                return f"(negb {a})", "bool"
            if isinstance(e.op, ast.USub):
                return self.op(e, ty, "neg", a)
            if isinstance(e.op, ast.Invert):
                return self.op(e, ty, "invert", a)
            self.fail(e, "unary operator")
        if isinstance(e, ast.BinOp):
            if type(e.op) not in BIN:
                self.fail(e, "binary operator")
            a, ta = self.expr(e.left)
            b, tb = self.expr(e.right)
            if ta != tb:
                self.fail(e, f"operand types differ: {ta} vs {tb}")
            return self.op(e, ta, BIN[type(e.op)], a, b)
        if isinstance(e, ast.BoolOp):
            parts = [self.expr(v) for v in e.values]
            for (t, ty), v in zip(parts, e.values):
                if ty != "bool":
                    self.fail(v, f"`and`/`or` operand of type {ty}")
            j = " && " if isinstance(e.op, ast.And) else " || "
            return "(" + j.join(p[0] for p in parts) + ")", "bool"
        if isinstance(e, ast.Compare):
            operands = [e.left] + list(e.comparators)
            ts = [self.expr(x) for x in operands]
            conj = []
            for i, op in enumerate(e.ops):
                if type(op) not in CMP:
                    self.fail(e, "comparison operator")
                (a, ta), (b, tb) = ts[i], ts[i + 1]
                if ta != tb:
                    self.fail(e, f"comparison of {ta} with {tb}")
                t, rty = self.op(e, ta, CMP[type(op)], a, b)
                conj.append(t)
            return ("(" + " && ".join(conj) + ")" if len(conj) > 1 else conj[0]), "bool"
        if isinstance(e, ast.IfExp):
            c, tc = self.expr(e.test)
            a, ta = self.expr(e.body)
            b, tb = self.expr(e.orelse)
            if tc != "bool" or ta != tb:
                self.fail(e, f"conditional expression types {tc}/{ta}/{tb}")
            return f"(if {c} then {a} else {b})", ta
        if isinstance(e, ast.Call):
            f = ast.unparse(e.func)
            if f == "isinstance" and len(e.args) == 2:
                key = (ast.unparse(e.args[0]), ast.unparse(e.args[1]))
                if key in self.isinstance_facts:
                    return ("true" if self.isinstance_facts[key] else "false"), "bool"
                self.fail(e, "isinstance with no static fact")
            if f in ("max", "min") and len(e.args) == 2 and not e.keywords:
                a, ta = self.expr(e.args[0])
                b, tb = self.expr(e.args[1])
                if ta != tb:
                    self.fail(e, "max/min operand types differ")
                return self.op(e, ta, f, a, b)
            if f in self.calls:
                return self.calls[f](self, e)
            self.fail(e, "unknown callee")
        if isinstance(e, ast.Tuple):
            parts = [self.expr(x) for x in e.elts]
            return "(" + ", ".join(p[0] for p in parts) + ")", "(" + " * ".join(p[1] for p in parts) + ")"
        self.fail(e, f"expression kind {type(e).__name__}")

    # -- statement lists that only branch and return ------------------------------------
    def body(self, stmts: list[ast.stmt], ret, raise_) -> str:
        """Translate `if c: <body>` / `return e` / `raise X(...)` sequences.
        ret(term, type) -> coq text for a normal return; raise_(node) -> coq text."""
        stmts = strip_doc(stmts)
        if not stmts:
            raise TranslatorError("function body falls off the end (implicit return None) — not supported here")
        s, rest = stmts[0], stmts[1:]
        if isinstance(s, ast.Return):
            if s.value is None:
                return ret("None", "none")
            t, ty = self.expr(s.value)
            return ret(t, ty)
        if isinstance(s, ast.Raise):
            return raise_(s)
        if isinstance(s, ast.If):
            c, tc = self.expr(s.test)
            if tc != "bool":
                self.fail(s.test, f"condition of type {tc}")
            then_falls = not _always_leaves(s.body)
            else_falls = not _always_leaves(s.orelse) if s.orelse else True
            if c == "true":   # statically decided (isinstance fact): dead branch is pruned
                return self.body(s.body + (rest if then_falls else []), ret, raise_)
            if c == "false":
                return self.body((s.orelse + rest) if else_falls else s.orelse, ret, raise_)
            th = self.body(s.body + (rest if then_falls else []), ret, raise_)
            el = self.body((s.orelse + rest) if else_falls else s.orelse, ret, raise_)
            return f"(if {c} then {th} else {el})"
        if isinstance(s, ast.Assert):
            c, tc = self.expr(s.test)
            return f"(if {c} then {self.body(rest, ret, raise_)} else {raise_(s)})"
        raise TranslatorError(f"statement not supported: `{ast.unparse(s)[:60]}`")


def _always_leaves(stmts: list[ast.stmt]) -> bool:
    if not stmts:
        return False
    s = stmts[-1]
    if isinstance(s, (ast.Return, ast.Raise)):
        return True
    if isinstance(s, ast.If) and s.orelse:
        return _always_leaves(s.body) and _always_leaves(s.orelse)
    return False


HEADER = "(* GENERATED on every run from {src} by {tool} — do not edit; edits are overwritten *)\n"
