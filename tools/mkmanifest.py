#!/usr/bin/env python3
"""Assemble /verif/MANIFEST.json and /verif/known_findings.json from props/*/meta.json and
props/*/known_findings.json.  Properties with no check are listed under not_applicable with
the reason found in tools/not_applicable.json."""
import json
from pathlib import Path

V = Path(__file__).resolve().parent.parent
props = [json.loads(l) for l in (V / "properties.jsonl").read_text().splitlines() if l.strip()]
na = json.loads((V / "tools/not_applicable.json").read_text())
checks, notapp, known = [], [], []
registered = set(json.loads((V / "tools/registered.json").read_text()))
fixed = json.loads((V / "tools/fixed_findings.json").read_text()) if (V / "tools/fixed_findings.json").exists() else []
# resolve the current hash of every recorded fix commit from its subject line
import subprocess
_log = subprocess.run(["git", "-C", "/repo", "log", "--format=%h\t%s"], capture_output=True, text=True).stdout.strip().split("\n")
_subj = {l.split("\t", 1)[1]: l.split("\t", 1)[0] for l in _log if "\t" in l}
for e in fixed:
    if e.get("subject") in _subj and _subj[e["subject"]] != e.get("commit"):
        e["fixed"] = e["fixed"].replace(e["commit"], _subj[e["subject"]])
        e["commit"] = _subj[e["subject"]]
(V / "tools/fixed_findings.json").write_text(json.dumps(fixed, indent=1) + "\n")
hook_commits = []
for p in props:
    pid = p["id"]
    d = V / "props" / pid
    if pid in registered and (d / "check.py").exists() and (d / "meta.json").exists():
        m = json.loads((d / "meta.json").read_text())
        c = {"property_id": pid,
             "quick_cmd": f"./check {pid} --tier quick",
             "thorough_cmd": f"./check {pid} --tier thorough",
             "evidence_file": f"/verif/evidence/{pid}.json",
             "replay_cmd_template": f"./check {pid} --replay {{path}}",
             "engine": "coq",
             "level_claimed": m["level_claimed"], "level_note": m["level_note"],
             "technique": m.get("technique", "machine-checked proof in Coq with checked tie to source")}
        checks.append(c)
        kf = d / "known_findings.json"
        if kf.exists():
            known += json.loads(kf.read_text())
    else:
        notapp.append({"property_id": pid, "reason": na.get(pid, "check under construction: not yet passing review on the unchanged tree, so no claim is made for it at this commit")})
man = {
    "version": 1,
    "setup_cmd": "./check --setup",
    "hooks": {"guard": "CQCL_GUPPYLANG_VERIF", "enable": "no instrumentation is compiled into /repo; harnesses import /repo sources with PYTHONPATH and set CQCL_GUPPYLANG_VERIF=1",
              "baseline_off_cmd": "cd /repo && /venv/bin/python -m pytest -ra -q -p no:cacheprovider --timeout=900 --continue-on-collection-errors",
              "source_commits": [], "add_only": True},
    "engines": [{"name": "coq", "path": "/verif/coq", "serves_properties": [c["property_id"] for c in checks],
                 "kind_free_text": "Coq 8.16.1 development (models, generated definitions, proofs) + Python translators and differential harnesses under /verif/props"}],
    "checks": checks,
    "not_applicable": notapp,
    "notes": "Every check: regenerate Gen*.v from /repo -> rebuild proofs (full .vo) -> correspondence/translator validation -> failing-input search on breakage. See DESIGN.md.",
}
(V / "MANIFEST.json").write_text(json.dumps(man, indent=1) + "\n")
(V / "known_findings.json").write_text(json.dumps(known + fixed, indent=1) + "\n")
print(f"{len(checks)} checks, {len(notapp)} not claimed, {len(known)} known findings, {len(fixed)} fixed")
