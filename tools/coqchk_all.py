#!/usr/bin/env python3
"""Re-check every property's compiled Props.vo (and everything it depends on) with the
independent checker coqchk, and summarise the axioms it reports into tools/coqchk_summary.json.
Usage: python3 tools/coqchk_all.py [-j N] [Cxx ...]   (run after ./check --setup or ./check --all;
the .vo files must be up to date).  Takes 1-3 min per property, up to ~4 GB each."""
import json
import re
import subprocess
import sys
from concurrent.futures import ThreadPoolExecutor
from pathlib import Path

V = Path(__file__).resolve().parent.parent
COQ = V / "coq"


def one(pid):
    vo = COQ / pid / "Props.vo"
    if not vo.exists():
        return pid, {"checked": False, "error": "Props.vo missing"}
    try:
        r = subprocess.run(["coqchk", "-silent", "-o", "-Q", ".", "V", f"V.{pid}.Props"], cwd=COQ,
                           capture_output=True, text=True, timeout=3000)
    except subprocess.TimeoutExpired:
        return pid, {"checked": False, "error": "timeout"}
    out = r.stdout + r.stderr
    if r.returncode != 0:
        return pid, {"checked": False, "error": out[-1500:]}
    res = {"checked": True, "axioms": [], "other": {}}
    sect = None
    for line in out.splitlines():
        m = re.match(r"^\* (.*?):\s*(.*)$", line)
        if m:
            sect = m.group(1)
            rest = m.group(2).strip()
            if sect.startswith("Axioms"):
                if rest and rest != "<none>":
                    res["axioms"].append(rest)
            else:
                res["other"][sect] = rest or ""
            continue
        s = line.strip()
        if sect and s and line.startswith(" "):
            if sect.startswith("Axioms"):
                res["axioms"].append(s)
            else:
                res["other"][sect] = (res["other"].get(sect, "") + " " + s).strip()
    return pid, res


def main():
    args = sys.argv[1:]
    j = 4
    if args[:1] == ["-j"]:
        j = int(args[1])
        args = args[2:]
    pids = args or sorted(p.parent.name for p in COQ.glob("C*/Props.v"))
    summ_p = V / "tools" / "coqchk_summary.json"
    summ = json.loads(summ_p.read_text()) if summ_p.exists() and args else {}
    with ThreadPoolExecutor(j) as ex:
        for pid, res in ex.map(one, pids):
            summ[pid] = res
            print(pid, "ok" if res.get("checked") else "FAILED", len(res.get("axioms", [])), "axioms", flush=True)
    summ_p.write_text(json.dumps(dict(sorted(summ.items())), indent=1) + "\n")
    bad = [p for p, r in summ.items() if not r.get("checked")]
    print("failed:", bad)
    return 1 if bad else 0


if __name__ == "__main__":
    sys.exit(main())
